
type __ = Obj.t

(** val negb : bool -> bool **)

let negb = function
| true -> false
| false -> true

type nat =
| O
| S of nat

(** val fst : ('a1 * 'a2) -> 'a1 **)

let fst = function
| (x, _) -> x

(** val snd : ('a1 * 'a2) -> 'a2 **)

let snd = function
| (_, y) -> y

(** val app : 'a1 list -> 'a1 list -> 'a1 list **)

let rec app l m =
  match l with
  | [] -> m
  | a :: l1 -> a :: (app l1 m)

module Nat =
 struct
  (** val eqb : nat -> nat -> bool **)

  let rec eqb n m =
    match n with
    | O -> (match m with
            | O -> true
            | S _ -> false)
    | S n' -> (match m with
               | O -> false
               | S m' -> eqb n' m')
 end

(** val nth_error : 'a1 list -> nat -> 'a1 option **)

let rec nth_error l = function
| O -> (match l with
        | [] -> None
        | x :: _ -> Some x)
| S n0 -> (match l with
           | [] -> None
           | _ :: l0 -> nth_error l0 n0)

(** val map : ('a1 -> 'a2) -> 'a1 list -> 'a2 list **)

let rec map f = function
| [] -> []
| a :: t -> (f a) :: (map f t)

(** val flat_map : ('a1 -> 'a2 list) -> 'a1 list -> 'a2 list **)

let rec flat_map f = function
| [] -> []
| x :: t -> app (f x) (flat_map f t)

(** val existsb : ('a1 -> bool) -> 'a1 list -> bool **)

let rec existsb f = function
| [] -> false
| a :: l0 -> (||) (f a) (existsb f l0)

(** val forallb : ('a1 -> bool) -> 'a1 list -> bool **)

let rec forallb f = function
| [] -> true
| a :: l0 -> (&&) (f a) (forallb f l0)

(** val combine : 'a1 list -> 'a2 list -> ('a1 * 'a2) list **)

let rec combine l l' =
  match l with
  | [] -> []
  | x :: tl ->
    (match l' with
     | [] -> []
     | y :: tl' -> (x, y) :: (combine tl tl'))

type ascii =
| Ascii of bool * bool * bool * bool * bool * bool * bool * bool

type string =
| EmptyString
| String of ascii * string

type flag =
| BypassOriginValidation
| BypassDestinationValidation
| CustomTraceNumbers
| AllowZeroBatches
| AllowMissingFileHeader
| AllowMissingFileControl
| BypassCompanyIdentificationMatch
| CustomReturnCodes
| UnequalServiceClassCode
| AllowUnorderedBatchNumbers
| AllowInvalidCheckDigit
| UnequalAddendaCounts
| AllowInvalidAmounts
| AllowZeroEntryAmount
| AllowSpecialCharacters

(** val all_flags : flag list **)

let all_flags =
  BypassOriginValidation :: (BypassDestinationValidation :: (CustomTraceNumbers :: (AllowZeroBatches :: (AllowMissingFileHeader :: (AllowMissingFileControl :: (BypassCompanyIdentificationMatch :: (CustomReturnCodes :: (UnequalServiceClassCode :: (AllowUnorderedBatchNumbers :: (AllowInvalidCheckDigit :: (UnequalAddendaCounts :: (AllowInvalidAmounts :: (AllowZeroEntryAmount :: (AllowSpecialCharacters :: []))))))))))))))

(** val flag_idx : flag -> nat **)

let flag_idx = function
| BypassOriginValidation -> O
| BypassDestinationValidation -> S O
| CustomTraceNumbers -> S (S O)
| AllowZeroBatches -> S (S (S O))
| AllowMissingFileHeader -> S (S (S (S O)))
| AllowMissingFileControl -> S (S (S (S (S O))))
| BypassCompanyIdentificationMatch -> S (S (S (S (S (S O)))))
| CustomReturnCodes -> S (S (S (S (S (S (S O))))))
| UnequalServiceClassCode -> S (S (S (S (S (S (S (S O)))))))
| AllowUnorderedBatchNumbers -> S (S (S (S (S (S (S (S (S O))))))))
| AllowInvalidCheckDigit -> S (S (S (S (S (S (S (S (S (S O)))))))))
| UnequalAddendaCounts -> S (S (S (S (S (S (S (S (S (S (S O))))))))))
| AllowInvalidAmounts -> S (S (S (S (S (S (S (S (S (S (S (S O)))))))))))
| AllowZeroEntryAmount -> S (S (S (S (S (S (S (S (S (S (S (S (S O))))))))))))
| AllowSpecialCharacters ->
  S (S (S (S (S (S (S (S (S (S (S (S (S (S O)))))))))))))

(** val flag_eqb : flag -> flag -> bool **)

let flag_eqb a b =
  Nat.eqb (flag_idx a) (flag_idx b)

type opts = flag -> bool

(** val opts_of : flag list -> opts **)

let opts_of l f =
  existsb (flag_eqb f) l

type clause = flag list

(** val skip : opts -> clause -> bool **)

let skip =
  existsb

type site = { s_func : string; s_flag : flag; s_occ : nat }

type 'x vt =
| Pass
| Chk of ('x -> bool)
| Skip of ('x -> bool) * site * 'x vt
| And of 'x vt * 'x vt
| Each of ('x -> __ list) * __ vt
| On of ('x -> __) * __ vt
| Ite of ('x -> bool) * 'x vt * 'x vt

(** val seq : 'a1 vt list -> 'a1 vt **)

let rec seq = function
| [] -> Pass
| t :: ts' -> (match ts' with
               | [] -> t
               | _ :: _ -> And (t, (seq ts')))

(** val always : 'a1 -> bool **)

let always _ =
  true

(** val clauses : 'a1 vt -> clause -> clause list **)

let rec clauses t ctx =
  match t with
  | Pass -> []
  | Chk _ -> ctx :: []
  | Skip (_, s, t0) ->
    app (clauses t0 (app ctx (s.s_flag :: []))) (clauses t0 ctx)
  | And (a, b) -> app (clauses a ctx) (clauses b ctx)
  | Each (_, t0) -> clauses (Obj.magic t0) ctx
  | On (_, t0) -> clauses (Obj.magic t0) ctx
  | Ite (_, a, b) -> app (clauses a ctx) (clauses b ctx)

(** val predict_l : clause list -> bool list -> flag list -> bool **)

let predict_l family obs on =
  forallb (fun p -> (||) (skip (opts_of on) (fst p)) (snd p))
    (combine family obs)

type rkind =
| KBatchHeader
| KBatchControl
| KADVBatchControl
| KIATBatchHeader
| KFileControl
| KADVFileControl
| KADVEntry
| KIATEntry
| KA02
| KA05
| KA98
| KA98R
| KA99
| KA99D
| KA99C
| KA10
| KA11
| KA12
| KA13
| KA14
| KA15
| KA16
| KA17
| KA18

(** val leaf_site : rkind -> site option **)

let leaf_site = function
| KBatchHeader ->
  Some { s_func = (String ((Ascii (false, true, false, false, false, false,
    true, false)), (String ((Ascii (true, false, false, false, false, true,
    true, false)), (String ((Ascii (false, false, true, false, true, true,
    true, false)), (String ((Ascii (true, true, false, false, false, true,
    true, false)), (String ((Ascii (false, false, false, true, false, true,
    true, false)), (String ((Ascii (false, false, false, true, false, false,
    true, false)), (String ((Ascii (true, false, true, false, false, true,
    true, false)), (String ((Ascii (true, false, false, false, false, true,
    true, false)), (String ((Ascii (false, false, true, false, false, true,
    true, false)), (String ((Ascii (true, false, true, false, false, true,
    true, false)), (String ((Ascii (false, true, false, false, true, true,
    true, false)), (String ((Ascii (false, true, true, true, false, true,
    false, false)), (String ((Ascii (false, true, true, false, true, false,
    true, false)), (String ((Ascii (true, false, false, false, false, true,
    true, false)), (String ((Ascii (false, false, true, true, false, true,
    true, false)), (String ((Ascii (true, false, false, true, false, true,
    true, false)), (String ((Ascii (false, false, true, false, false, true,
    true, false)), (String ((Ascii (true, false, false, false, false, true,
    true, false)), (String ((Ascii (false, false, true, false, true, true,
    true, false)), (String ((Ascii (true, false, true, false, false, true,
    true, false)), EmptyString))))))))))))))))))))))))))))))))))))))));
    s_flag = AllowSpecialCharacters; s_occ = (S O) }
| KBatchControl ->
  Some { s_func = (String ((Ascii (false, true, false, false, false, false,
    true, false)), (String ((Ascii (true, false, false, false, false, true,
    true, false)), (String ((Ascii (false, false, true, false, true, true,
    true, false)), (String ((Ascii (true, true, false, false, false, true,
    true, false)), (String ((Ascii (false, false, false, true, false, true,
    true, false)), (String ((Ascii (true, true, false, false, false, false,
    true, false)), (String ((Ascii (true, true, true, true, false, true,
    true, false)), (String ((Ascii (false, true, true, true, false, true,
    true, false)), (String ((Ascii (false, false, true, false, true, true,
    true, false)), (String ((Ascii (false, true, false, false, true, true,
    true, false)), (String ((Ascii (true, true, true, true, false, true,
    true, false)), (String ((Ascii (false, false, true, true, false, true,
    true, false)), (String ((Ascii (false, true, true, true, false, true,
    false, false)), (String ((Ascii (false, true, true, false, true, false,
    true, false)), (String ((Ascii (true, false, false, false, false, true,
    true, false)), (String ((Ascii (false, false, true, true, false, true,
    true, false)), (String ((Ascii (true, false, false, true, false, true,
    true, false)), (String ((Ascii (false, false, true, false, false, true,
    true, false)), (String ((Ascii (true, false, false, false, false, true,
    true, false)), (String ((Ascii (false, false, true, false, true, true,
    true, false)), (String ((Ascii (true, false, true, false, false, true,
    true, false)), EmptyString))))))))))))))))))))))))))))))))))))))))));
    s_flag = AllowSpecialCharacters; s_occ = (S O) }
| KADVBatchControl ->
  Some { s_func = (String ((Ascii (true, false, false, false, false, false,
    true, false)), (String ((Ascii (false, false, true, false, false, false,
    true, false)), (String ((Ascii (false, true, true, false, true, false,
    true, false)), (String ((Ascii (false, true, false, false, false, false,
    true, false)), (String ((Ascii (true, false, false, false, false, true,
    true, false)), (String ((Ascii (false, false, true, false, true, true,
    true, false)), (String ((Ascii (true, true, false, false, false, true,
    true, false)), (String ((Ascii (false, false, false, true, false, true,
    true, false)), (String ((Ascii (true, true, false, false, false, false,
    true, false)), (String ((Ascii (true, true, true, true, false, true,
    true, false)), (String ((Ascii (false, true, true, true, false, true,
    true, false)), (String ((Ascii (false, false, true, false, true, true,
    true, false)), (String ((Ascii (false, true, false, false, true, true,
    true, false)), (String ((Ascii (true, true, true, true, false, true,
    true, false)), (String ((Ascii (false, false, true, true, false, true,
    true, false)), (String ((Ascii (false, true, true, true, false, true,
    false, false)), (String ((Ascii (false, true, true, false, true, false,
    true, false)), (String ((Ascii (true, false, false, false, false, true,
    true, false)), (String ((Ascii (false, false, true, true, false, true,
    true, false)), (String ((Ascii (true, false, false, true, false, true,
    true, false)), (String ((Ascii (false, false, true, false, false, true,
    true, false)), (String ((Ascii (true, false, false, false, false, true,
    true, false)), (String ((Ascii (false, false, true, false, true, true,
    true, false)), (String ((Ascii (true, false, true, false, false, true,
    true, false)),
    EmptyString)))))))))))))))))))))))))))))))))))))))))))))))); s_flag =
    AllowSpecialCharacters; s_occ = (S O) }
| KIATBatchHeader ->
  Some { s_func = (String ((Ascii (true, false, false, true, false, false,
    true, false)), (String ((Ascii (true, false, false, false, false, false,
    true, false)), (String ((Ascii (false, false, true, false, true, false,
    true, false)), (String ((Ascii (false, true, false, false, false, false,
    true, false)), (String ((Ascii (true, false, false, false, false, true,
    true, false)), (String ((Ascii (false, false, true, false, true, true,
    true, false)), (String ((Ascii (true, true, false, false, false, true,
    true, false)), (String ((Ascii (false, false, false, true, false, true,
    true, false)), (String ((Ascii (false, false, false, true, false, false,
    true, false)), (String ((Ascii (true, false, true, false, false, true,
    true, false)), (String ((Ascii (true, false, false, false, false, true,
    true, false)), (String ((Ascii (false, false, true, false, false, true,
    true, false)), (String ((Ascii (true, false, true, false, false, true,
    true, false)), (String ((Ascii (false, true, false, false, true, true,
    true, false)), (String ((Ascii (false, true, true, true, false, true,
    false, false)), (String ((Ascii (false, true, true, false, true, false,
    true, false)), (String ((Ascii (true, false, false, false, false, true,
    true, false)), (String ((Ascii (false, false, true, true, false, true,
    true, false)), (String ((Ascii (true, false, false, true, false, true,
    true, false)), (String ((Ascii (false, false, true, false, false, true,
    true, false)), (String ((Ascii (true, false, false, false, false, true,
    true, false)), (String ((Ascii (false, false, true, false, true, true,
    true, false)), (String ((Ascii (true, false, true, false, false, true,
    true, false)), EmptyString))))))))))))))))))))))))))))))))))))))))))))));
    s_flag = AllowSpecialCharacters; s_occ = (S O) }
| KADVEntry ->
  Some { s_func = (String ((Ascii (true, false, false, false, false, false,
    true, false)), (String ((Ascii (false, false, true, false, false, false,
    true, false)), (String ((Ascii (false, true, true, false, true, false,
    true, false)), (String ((Ascii (true, false, true, false, false, false,
    true, false)), (String ((Ascii (false, true, true, true, false, true,
    true, false)), (String ((Ascii (false, false, true, false, true, true,
    true, false)), (String ((Ascii (false, true, false, false, true, true,
    true, false)), (String ((Ascii (true, false, false, true, true, true,
    true, false)), (String ((Ascii (false, false, true, false, false, false,
    true, false)), (String ((Ascii (true, false, true, false, false, true,
    true, false)), (String ((Ascii (false, false, true, false, true, true,
    true, false)), (String ((Ascii (true, false, false, false, false, true,
    true, false)), (String ((Ascii (true, false, false, true, false, true,
    true, false)), (String ((Ascii (false, false, true, true, false, true,
    true, false)), (String ((Ascii (false, true, true, true, false, true,
    false, false)), (String ((Ascii (false, true, true, false, true, false,
    true, false)), (String ((Ascii (true, false, false, false, false, true,
    true, false)), (String ((Ascii (false, false, true, true, false, true,
    true, false)), (String ((Ascii (true, false, false, true, false, true,
    true, false)), (String ((Ascii (false, false, true, false, false, true,
    true, false)), (String ((Ascii (true, false, false, false, false, true,
    true, false)), (String ((Ascii (false, false, true, false, true, true,
    true, false)), (String ((Ascii (true, false, true, false, false, true,
    true, false)), EmptyString))))))))))))))))))))))))))))))))))))))))))))));
    s_flag = AllowSpecialCharacters; s_occ = (S O) }
| KIATEntry ->
  Some { s_func = (String ((Ascii (true, false, false, true, false, false,
    true, false)), (String ((Ascii (true, false, false, false, false, false,
    true, false)), (String ((Ascii (false, false, true, false, true, false,
    true, false)), (String ((Ascii (true, false, true, false, false, false,
    true, false)), (String ((Ascii (false, true, true, true, false, true,
    true, false)), (String ((Ascii (false, false, true, false, true, true,
    true, false)), (String ((Ascii (false, true, false, false, true, true,
    true, false)), (String ((Ascii (true, false, false, true, true, true,
    true, false)), (String ((Ascii (false, false, true, false, false, false,
    true, false)), (String ((Ascii (true, false, true, false, false, true,
    true, false)), (String ((Ascii (false, false, true, false, true, true,
    true, false)), (String ((Ascii (true, false, false, false, false, true,
    true, false)), (String ((Ascii (true, false, false, true, false, true,
    true, false)), (String ((Ascii (false, false, true, true, false, true,
    true, false)), (String ((Ascii (false, true, true, true, false, true,
    false, false)), (String ((Ascii (false, true, true, false, true, false,
    true, false)), (String ((Ascii (true, false, false, false, false, true,
    true, false)), (String ((Ascii (false, false, true, true, false, true,
    true, false)), (String ((Ascii (true, false, false, true, false, true,
    true, false)), (String ((Ascii (false, false, true, false, false, true,
    true, false)), (String ((Ascii (true, false, false, false, false, true,
    true, false)), (String ((Ascii (false, false, true, false, true, true,
    true, false)), (String ((Ascii (true, false, true, false, false, true,
    true, false)), EmptyString))))))))))))))))))))))))))))))))))))))))))))));
    s_flag = AllowSpecialCharacters; s_occ = (S O) }
| KA02 ->
  Some { s_func = (String ((Ascii (true, false, false, false, false, false,
    true, false)), (String ((Ascii (false, false, true, false, false, true,
    true, false)), (String ((Ascii (false, false, true, false, false, true,
    true, false)), (String ((Ascii (true, false, true, false, false, true,
    true, false)), (String ((Ascii (false, true, true, true, false, true,
    true, false)), (String ((Ascii (false, false, true, false, false, true,
    true, false)), (String ((Ascii (true, false, false, false, false, true,
    true, false)), (String ((Ascii (false, false, false, false, true, true,
    false, false)), (String ((Ascii (false, true, false, false, true, true,
    false, false)), (String ((Ascii (false, true, true, true, false, true,
    false, false)), (String ((Ascii (false, true, true, false, true, false,
    true, false)), (String ((Ascii (true, false, false, false, false, true,
    true, false)), (String ((Ascii (false, false, true, true, false, true,
    true, false)), (String ((Ascii (true, false, false, true, false, true,
    true, false)), (String ((Ascii (false, false, true, false, false, true,
    true, false)), (String ((Ascii (true, false, false, false, false, true,
    true, false)), (String ((Ascii (false, false, true, false, true, true,
    true, false)), (String ((Ascii (true, false, true, false, false, true,
    true, false)), EmptyString)))))))))))))))))))))))))))))))))))); s_flag =
    AllowSpecialCharacters; s_occ = (S O) }
| KA05 ->
  Some { s_func = (String ((Ascii (true, false, false, false, false, false,
    true, false)), (String ((Ascii (false, false, true, false, false, true,
    true, false)), (String ((Ascii (false, false, true, false, false, true,
    true, false)), (String ((Ascii (true, false, true, false, false, true,
    true, false)), (String ((Ascii (false, true, true, true, false, true,
    true, false)), (String ((Ascii (false, false, true, false, false, true,
    true, false)), (String ((Ascii (true, false, false, false, false, true,
    true, false)), (String ((Ascii (false, false, false, false, true, true,
    false, false)), (String ((Ascii (true, false, true, false, true, true,
    false, false)), (String ((Ascii (false, true, true, true, false, true,
    false, false)), (String ((Ascii (false, true, true, false, true, false,
    true, false)), (String ((Ascii (true, false, false, false, false, true,
    true, false)), (String ((Ascii (false, false, true, true, false, true,
    true, false)), (String ((Ascii (true, false, false, true, false, true,
    true, false)), (String ((Ascii (false, false, true, false, false, true,
    true, false)), (String ((Ascii (true, false, false, false, false, true,
    true, false)), (String ((Ascii (false, false, true, false, true, true,
    true, false)), (String ((Ascii (true, false, true, false, false, true,
    true, false)), EmptyString)))))))))))))))))))))))))))))))))))); s_flag =
    AllowSpecialCharacters; s_occ = (S O) }
| KA99 ->
  Some { s_func = (String ((Ascii (true, false, false, false, false, false,
    true, false)), (String ((Ascii (false, false, true, false, false, true,
    true, false)), (String ((Ascii (false, false, true, false, false, true,
    true, false)), (String ((Ascii (true, false, true, false, false, true,
    true, false)), (String ((Ascii (false, true, true, true, false, true,
    true, false)), (String ((Ascii (false, false, true, false, false, true,
    true, false)), (String ((Ascii (true, false, false, false, false, true,
    true, false)), (String ((Ascii (true, false, false, true, true, true,
    false, false)), (String ((Ascii (true, false, false, true, true, true,
    false, false)), (String ((Ascii (false, true, true, true, false, true,
    false, false)), (String ((Ascii (false, true, true, false, true, false,
    true, false)), (String ((Ascii (true, false, false, false, false, true,
    true, false)), (String ((Ascii (false, false, true, true, false, true,
    true, false)), (String ((Ascii (true, false, false, true, false, true,
    true, false)), (String ((Ascii (false, false, true, false, false, true,
    true, false)), (String ((Ascii (true, false, false, false, false, true,
    true, false)), (String ((Ascii (false, false, true, false, true, true,
    true, false)), (String ((Ascii (true, false, true, false, false, true,
    true, false)), EmptyString)))))))))))))))))))))))))))))))))))); s_flag =
    CustomReturnCodes; s_occ = (S O) }
| KA99D ->
  Some { s_func = (String ((Ascii (true, false, false, false, false, false,
    true, false)), (String ((Ascii (false, false, true, false, false, true,
    true, false)), (String ((Ascii (false, false, true, false, false, true,
    true, false)), (String ((Ascii (true, false, true, false, false, true,
    true, false)), (String ((Ascii (false, true, true, true, false, true,
    true, false)), (String ((Ascii (false, false, true, false, false, true,
    true, false)), (String ((Ascii (true, false, false, false, false, true,
    true, false)), (String ((Ascii (true, false, false, true, true, true,
    false, false)), (String ((Ascii (true, false, false, true, true, true,
    false, false)), (String ((Ascii (false, false, true, false, false, false,
    true, false)), (String ((Ascii (true, false, false, true, false, true,
    true, false)), (String ((Ascii (true, true, false, false, true, true,
    true, false)), (String ((Ascii (false, false, false, true, false, true,
    true, false)), (String ((Ascii (true, true, true, true, false, true,
    true, false)), (String ((Ascii (false, true, true, true, false, true,
    true, false)), (String ((Ascii (true, true, true, true, false, true,
    true, false)), (String ((Ascii (false, true, false, false, true, true,
    true, false)), (String ((Ascii (true, false, true, false, false, true,
    true, false)), (String ((Ascii (false, false, true, false, false, true,
    true, false)), (String ((Ascii (false, true, true, true, false, true,
    false, false)), (String ((Ascii (false, true, true, false, true, false,
    true, false)), (String ((Ascii (true, false, false, false, false, true,
    true, false)), (String ((Ascii (false, false, true, true, false, true,
    true, false)), (String ((Ascii (true, false, false, true, false, true,
    true, false)), (String ((Ascii (false, false, true, false, false, true,
    true, false)), (String ((Ascii (true, false, false, false, false, true,
    true, false)), (String ((Ascii (false, false, true, false, true, true,
    true, false)), (String ((Ascii (true, false, true, false, false, true,
    true, false)),
    EmptyString))))))))))))))))))))))))))))))))))))))))))))))))))))))));
    s_flag = CustomReturnCodes; s_occ = (S O) }
| KA99C ->
  Some { s_func = (String ((Ascii (true, false, false, false, false, false,
    true, false)), (String ((Ascii (false, false, true, false, false, true,
    true, false)), (String ((Ascii (false, false, true, false, false, true,
    true, false)), (String ((Ascii (true, false, true, false, false, true,
    true, false)), (String ((Ascii (false, true, true, true, false, true,
    true, false)), (String ((Ascii (false, false, true, false, false, true,
    true, false)), (String ((Ascii (true, false, false, false, false, true,
    true, false)), (String ((Ascii (true, false, false, true, true, true,
    false, false)), (String ((Ascii (true, false, false, true, true, true,
    false, false)), (String ((Ascii (true, true, false, false, false, false,
    true, false)), (String ((Ascii (true, true, true, true, false, true,
    true, false)), (String ((Ascii (false, true, true, true, false, true,
    true, false)), (String ((Ascii (false, false, true, false, true, true,
    true, false)), (String ((Ascii (true, false, true, false, false, true,
    true, false)), (String ((Ascii (true, true, false, false, true, true,
    true, false)), (String ((Ascii (false, false, true, false, true, true,
    true, false)), (String ((Ascii (true, false, true, false, false, true,
    true, false)), (String ((Ascii (false, false, true, false, false, true,
    true, false)), (String ((Ascii (false, true, true, true, false, true,
    false, false)), (String ((Ascii (false, true, true, false, true, false,
    true, false)), (String ((Ascii (true, false, false, false, false, true,
    true, false)), (String ((Ascii (false, false, true, true, false, true,
    true, false)), (String ((Ascii (true, false, false, true, false, true,
    true, false)), (String ((Ascii (false, false, true, false, false, true,
    true, false)), (String ((Ascii (true, false, false, false, false, true,
    true, false)), (String ((Ascii (false, false, true, false, true, true,
    true, false)), (String ((Ascii (true, false, true, false, false, true,
    true, false)),
    EmptyString))))))))))))))))))))))))))))))))))))))))))))))))))))));
    s_flag = CustomReturnCodes; s_occ = (S O) }
| KA10 ->
  Some { s_func = (String ((Ascii (true, false, false, false, false, false,
    true, false)), (String ((Ascii (false, false, true, false, false, true,
    true, false)), (String ((Ascii (false, false, true, false, false, true,
    true, false)), (String ((Ascii (true, false, true, false, false, true,
    true, false)), (String ((Ascii (false, true, true, true, false, true,
    true, false)), (String ((Ascii (false, false, true, false, false, true,
    true, false)), (String ((Ascii (true, false, false, false, false, true,
    true, false)), (String ((Ascii (true, false, false, false, true, true,
    false, false)), (String ((Ascii (false, false, false, false, true, true,
    false, false)), (String ((Ascii (false, true, true, true, false, true,
    false, false)), (String ((Ascii (false, true, true, false, true, false,
    true, false)), (String ((Ascii (true, false, false, false, false, true,
    true, false)), (String ((Ascii (false, false, true, true, false, true,
    true, false)), (String ((Ascii (true, false, false, true, false, true,
    true, false)), (String ((Ascii (false, false, true, false, false, true,
    true, false)), (String ((Ascii (true, false, false, false, false, true,
    true, false)), (String ((Ascii (false, false, true, false, true, true,
    true, false)), (String ((Ascii (true, false, true, false, false, true,
    true, false)), EmptyString)))))))))))))))))))))))))))))))))))); s_flag =
    AllowSpecialCharacters; s_occ = (S O) }
| KA11 ->
  Some { s_func = (String ((Ascii (true, false, false, false, false, false,
    true, false)), (String ((Ascii (false, false, true, false, false, true,
    true, false)), (String ((Ascii (false, false, true, false, false, true,
    true, false)), (String ((Ascii (true, false, true, false, false, true,
    true, false)), (String ((Ascii (false, true, true, true, false, true,
    true, false)), (String ((Ascii (false, false, true, false, false, true,
    true, false)), (String ((Ascii (true, false, false, false, false, true,
    true, false)), (String ((Ascii (true, false, false, false, true, true,
    false, false)), (String ((Ascii (true, false, false, false, true, true,
    false, false)), (String ((Ascii (false, true, true, true, false, true,
    false, false)), (String ((Ascii (false, true, true, false, true, false,
    true, false)), (String ((Ascii (true, false, false, false, false, true,
    true, false)), (String ((Ascii (false, false, true, true, false, true,
    true, false)), (String ((Ascii (true, false, false, true, false, true,
    true, false)), (String ((Ascii (false, false, true, false, false, true,
    true, false)), (String ((Ascii (true, false, false, false, false, true,
    true, false)), (String ((Ascii (false, false, true, false, true, true,
    true, false)), (String ((Ascii (true, false, true, false, false, true,
    true, false)), EmptyString)))))))))))))))))))))))))))))))))))); s_flag =
    AllowSpecialCharacters; s_occ = (S O) }
| KA12 ->
  Some { s_func = (String ((Ascii (true, false, false, false, false, false,
    true, false)), (String ((Ascii (false, false, true, false, false, true,
    true, false)), (String ((Ascii (false, false, true, false, false, true,
    true, false)), (String ((Ascii (true, false, true, false, false, true,
    true, false)), (String ((Ascii (false, true, true, true, false, true,
    true, false)), (String ((Ascii (false, false, true, false, false, true,
    true, false)), (String ((Ascii (true, false, false, false, false, true,
    true, false)), (String ((Ascii (true, false, false, false, true, true,
    false, false)), (String ((Ascii (false, true, false, false, true, true,
    false, false)), (String ((Ascii (false, true, true, true, false, true,
    false, false)), (String ((Ascii (false, true, true, false, true, false,
    true, false)), (String ((Ascii (true, false, false, false, false, true,
    true, false)), (String ((Ascii (false, false, true, true, false, true,
    true, false)), (String ((Ascii (true, false, false, true, false, true,
    true, false)), (String ((Ascii (false, false, true, false, false, true,
    true, false)), (String ((Ascii (true, false, false, false, false, true,
    true, false)), (String ((Ascii (false, false, true, false, true, true,
    true, false)), (String ((Ascii (true, false, true, false, false, true,
    true, false)), EmptyString)))))))))))))))))))))))))))))))))))); s_flag =
    AllowSpecialCharacters; s_occ = (S O) }
| KA13 ->
  Some { s_func = (String ((Ascii (true, false, false, false, false, false,
    true, false)), (String ((Ascii (false, false, true, false, false, true,
    true, false)), (String ((Ascii (false, false, true, false, false, true,
    true, false)), (String ((Ascii (true, false, true, false, false, true,
    true, false)), (String ((Ascii (false, true, true, true, false, true,
    true, false)), (String ((Ascii (false, false, true, false, false, true,
    true, false)), (String ((Ascii (true, false, false, false, false, true,
    true, false)), (String ((Ascii (true, false, false, false, true, true,
    false, false)), (String ((Ascii (true, true, false, false, true, true,
    false, false)), (String ((Ascii (false, true, true, true, false, true,
    false, false)), (String ((Ascii (false, true, true, false, true, false,
    true, false)), (String ((Ascii (true, false, false, false, false, true,
    true, false)), (String ((Ascii (false, false, true, true, false, true,
    true, false)), (String ((Ascii (true, false, false, true, false, true,
    true, false)), (String ((Ascii (false, false, true, false, false, true,
    true, false)), (String ((Ascii (true, false, false, false, false, true,
    true, false)), (String ((Ascii (false, false, true, false, true, true,
    true, false)), (String ((Ascii (true, false, true, false, false, true,
    true, false)), EmptyString)))))))))))))))))))))))))))))))))))); s_flag =
    AllowSpecialCharacters; s_occ = (S O) }
| KA14 ->
  Some { s_func = (String ((Ascii (true, false, false, false, false, false,
    true, false)), (String ((Ascii (false, false, true, false, false, true,
    true, false)), (String ((Ascii (false, false, true, false, false, true,
    true, false)), (String ((Ascii (true, false, true, false, false, true,
    true, false)), (String ((Ascii (false, true, true, true, false, true,
    true, false)), (String ((Ascii (false, false, true, false, false, true,
    true, false)), (String ((Ascii (true, false, false, false, false, true,
    true, false)), (String ((Ascii (true, false, false, false, true, true,
    false, false)), (String ((Ascii (false, false, true, false, true, true,
    false, false)), (String ((Ascii (false, true, true, true, false, true,
    false, false)), (String ((Ascii (false, true, true, false, true, false,
    true, false)), (String ((Ascii (true, false, false, false, false, true,
    true, false)), (String ((Ascii (false, false, true, true, false, true,
    true, false)), (String ((Ascii (true, false, false, true, false, true,
    true, false)), (String ((Ascii (false, false, true, false, false, true,
    true, false)), (String ((Ascii (true, false, false, false, false, true,
    true, false)), (String ((Ascii (false, false, true, false, true, true,
    true, false)), (String ((Ascii (true, false, true, false, false, true,
    true, false)), EmptyString)))))))))))))))))))))))))))))))))))); s_flag =
    AllowSpecialCharacters; s_occ = (S O) }
| KA15 ->
  Some { s_func = (String ((Ascii (true, false, false, false, false, false,
    true, false)), (String ((Ascii (false, false, true, false, false, true,
    true, false)), (String ((Ascii (false, false, true, false, false, true,
    true, false)), (String ((Ascii (true, false, true, false, false, true,
    true, false)), (String ((Ascii (false, true, true, true, false, true,
    true, false)), (String ((Ascii (false, false, true, false, false, true,
    true, false)), (String ((Ascii (true, false, false, false, false, true,
    true, false)), (String ((Ascii (true, false, false, false, true, true,
    false, false)), (String ((Ascii (true, false, true, false, true, true,
    false, false)), (String ((Ascii (false, true, true, true, false, true,
    false, false)), (String ((Ascii (false, true, true, false, true, false,
    true, false)), (String ((Ascii (true, false, false, false, false, true,
    true, false)), (String ((Ascii (false, false, true, true, false, true,
    true, false)), (String ((Ascii (true, false, false, true, false, true,
    true, false)), (String ((Ascii (false, false, true, false, false, true,
    true, false)), (String ((Ascii (true, false, false, false, false, true,
    true, false)), (String ((Ascii (false, false, true, false, true, true,
    true, false)), (String ((Ascii (true, false, true, false, false, true,
    true, false)), EmptyString)))))))))))))))))))))))))))))))))))); s_flag =
    AllowSpecialCharacters; s_occ = (S O) }
| KA16 ->
  Some { s_func = (String ((Ascii (true, false, false, false, false, false,
    true, false)), (String ((Ascii (false, false, true, false, false, true,
    true, false)), (String ((Ascii (false, false, true, false, false, true,
    true, false)), (String ((Ascii (true, false, true, false, false, true,
    true, false)), (String ((Ascii (false, true, true, true, false, true,
    true, false)), (String ((Ascii (false, false, true, false, false, true,
    true, false)), (String ((Ascii (true, false, false, false, false, true,
    true, false)), (String ((Ascii (true, false, false, false, true, true,
    false, false)), (String ((Ascii (false, true, true, false, true, true,
    false, false)), (String ((Ascii (false, true, true, true, false, true,
    false, false)), (String ((Ascii (false, true, true, false, true, false,
    true, false)), (String ((Ascii (true, false, false, false, false, true,
    true, false)), (String ((Ascii (false, false, true, true, false, true,
    true, false)), (String ((Ascii (true, false, false, true, false, true,
    true, false)), (String ((Ascii (false, false, true, false, false, true,
    true, false)), (String ((Ascii (true, false, false, false, false, true,
    true, false)), (String ((Ascii (false, false, true, false, true, true,
    true, false)), (String ((Ascii (true, false, true, false, false, true,
    true, false)), EmptyString)))))))))))))))))))))))))))))))))))); s_flag =
    AllowSpecialCharacters; s_occ = (S O) }
| KA17 ->
  Some { s_func = (String ((Ascii (true, false, false, false, false, false,
    true, false)), (String ((Ascii (false, false, true, false, false, true,
    true, false)), (String ((Ascii (false, false, true, false, false, true,
    true, false)), (String ((Ascii (true, false, true, false, false, true,
    true, false)), (String ((Ascii (false, true, true, true, false, true,
    true, false)), (String ((Ascii (false, false, true, false, false, true,
    true, false)), (String ((Ascii (true, false, false, false, false, true,
    true, false)), (String ((Ascii (true, false, false, false, true, true,
    false, false)), (String ((Ascii (true, true, true, false, true, true,
    false, false)), (String ((Ascii (false, true, true, true, false, true,
    false, false)), (String ((Ascii (false, true, true, false, true, false,
    true, false)), (String ((Ascii (true, false, false, false, false, true,
    true, false)), (String ((Ascii (false, false, true, true, false, true,
    true, false)), (String ((Ascii (true, false, false, true, false, true,
    true, false)), (String ((Ascii (false, false, true, false, false, true,
    true, false)), (String ((Ascii (true, false, false, false, false, true,
    true, false)), (String ((Ascii (false, false, true, false, true, true,
    true, false)), (String ((Ascii (true, false, true, false, false, true,
    true, false)), EmptyString)))))))))))))))))))))))))))))))))))); s_flag =
    AllowSpecialCharacters; s_occ = (S O) }
| KA18 ->
  Some { s_func = (String ((Ascii (true, false, false, false, false, false,
    true, false)), (String ((Ascii (false, false, true, false, false, true,
    true, false)), (String ((Ascii (false, false, true, false, false, true,
    true, false)), (String ((Ascii (true, false, true, false, false, true,
    true, false)), (String ((Ascii (false, true, true, true, false, true,
    true, false)), (String ((Ascii (false, false, true, false, false, true,
    true, false)), (String ((Ascii (true, false, false, false, false, true,
    true, false)), (String ((Ascii (true, false, false, false, true, true,
    false, false)), (String ((Ascii (false, false, false, true, true, true,
    false, false)), (String ((Ascii (false, true, true, true, false, true,
    false, false)), (String ((Ascii (false, true, true, false, true, false,
    true, false)), (String ((Ascii (true, false, false, false, false, true,
    true, false)), (String ((Ascii (false, false, true, true, false, true,
    true, false)), (String ((Ascii (true, false, false, true, false, true,
    true, false)), (String ((Ascii (false, false, true, false, false, true,
    true, false)), (String ((Ascii (true, false, false, false, false, true,
    true, false)), (String ((Ascii (false, false, true, false, true, true,
    true, false)), (String ((Ascii (true, false, true, false, false, true,
    true, false)), EmptyString)))))))))))))))))))))))))))))))))))); s_flag =
    AllowSpecialCharacters; s_occ = (S O) }
| _ -> None

(** val all_kinds : rkind list **)

let all_kinds =
  KBatchHeader :: (KBatchControl :: (KADVBatchControl :: (KIATBatchHeader :: (KFileControl :: (KADVFileControl :: (KADVEntry :: (KIATEntry :: (KA02 :: (KA05 :: (KA98 :: (KA98R :: (KA99 :: (KA99D :: (KA99C :: (KA10 :: (KA11 :: (KA12 :: (KA13 :: (KA14 :: (KA15 :: (KA16 :: (KA17 :: (KA18 :: [])))))))))))))))))))))))

(** val entry_addenda_kinds : rkind list **)

let entry_addenda_kinds =
  KA02 :: (KA05 :: (KA98 :: (KA98R :: (KA99 :: (KA99D :: (KA99C :: []))))))

(** val iat_addenda_kinds : rkind list **)

let iat_addenda_kinds =
  KA10 :: (KA11 :: (KA12 :: (KA13 :: (KA14 :: (KA15 :: (KA16 :: (KA17 :: (KA18 :: (KA98 :: (KA99 :: []))))))))))

type rectype =
| RFileHeader
| RBatchHeader
| REntry
| RAddenda
| RBatchControl
| RFileControl
| RPadding
| RUnknown

type sig0 = { r_live : (__ -> bool); r_plain : (rkind -> __ -> bool);
              r_guarded : (rkind -> __ -> bool); fh_live : (__ -> bool);
              fh_incl : (__ -> bool); fh_basic : (__ -> bool);
              fh_origin : (__ -> bool); fh_dest : (__ -> bool);
              fh_special : (__ -> bool); e_live : (__ -> bool);
              e_basic : (__ -> bool); e_special : (__ -> bool);
              e_checkdigit : (__ -> bool);
              e_addenda : (rkind -> __ -> __ list); b_live : (__ -> bool);
              b_isADV : (__ -> bool); b_isCTX : (__ -> bool);
              b_header : (__ -> __); b_control : (__ -> __);
              b_advcontrol : (__ -> __); b_entries : (__ -> __ list);
              b_adventries : (__ -> __ list);
              adv_addenda99 : (__ -> __ list); b_has_entries : (__ -> bool);
              b_scc_eq : (__ -> bool); b_cid_eq : (__ -> bool);
              b_odfi_eq : (__ -> bool); b_num_eq : (__ -> bool);
              b_adv_scc_eq : (__ -> bool); b_adv_odfi_eq : (__ -> bool);
              b_adv_num_eq : (__ -> bool); b_count_eq : (__ -> bool);
              b_adv_count_eq : (__ -> bool); b_ascending : (__ -> bool);
              b_amount : (__ -> bool); b_hash : (__ -> bool);
              b_dne : (__ -> bool); b_trace_odfi : (__ -> bool);
              b_addenda_seq : (__ -> bool); b_category : (__ -> bool);
              b_sec_checks : (__ -> bool);
              be_ctx_count : ((__ * __) -> bool);
              be_noc : ((__ * __) -> bool); be_return : ((__ * __) -> bool);
              be_prenote : ((__ * __) -> bool);
              be_amount_zero : ((__ * __) -> bool);
              be_zero_remittance : ((__ * __) -> bool);
              ib_live : (__ -> bool); ib_header : (__ -> __);
              ib_control : (__ -> __); ib_entries : (__ -> __ list);
              ie_addenda : (rkind -> __ -> __ list); ie_incl : (__ -> bool);
              ib_has_entries : (__ -> bool); ib_scc_eq : (__ -> bool);
              ib_odfi_eq : (__ -> bool); ib_num_eq : (__ -> bool);
              ib_cid_special : (__ -> bool); ib_count_eq : (__ -> bool);
              ib_ascending : (__ -> bool); ib_amount : (__ -> bool);
              ib_hash : (__ -> bool); ib_trace_odfi : (__ -> bool);
              ib_addenda_seq : (__ -> bool); ib_category : (__ -> bool);
              ib_rules : (__ -> bool); f_live : (__ -> bool);
              f_isADV : (__ -> bool); f_header : (__ -> __);
              f_batches : (__ -> __ list); f_control : (__ -> __);
              f_advcontrol : (__ -> __); f_batchcount : (__ -> bool);
              f_adv_batchcount : (__ -> bool); f_eac : (__ -> bool);
              f_adv_eac : (__ -> bool); f_amount : (__ -> bool);
              f_adv_amount : (__ -> bool); f_ascending : (__ -> bool);
              f_hash : (__ -> bool); f_adv_hash : (__ -> bool);
              f_has_batches : (__ -> bool); rectype_of : (__ -> rectype);
              s_file : (__ -> __); s_header_unset : (__ -> bool);
              s_control_unset : (__ -> bool);
              s_advcontrol_unset : (__ -> bool); s_has_cur : (__ -> bool);
              s_cur_empty : (__ -> bool); s_cur_isADV : (__ -> bool);
              s_has_iat : (__ -> bool); s_flush_cur : (__ -> __);
              l_is_iat_header : (__ -> bool); parse_fh : (__ -> __ -> __);
              s_set_header : (__ -> __ -> __); parse_bh : (__ -> __ -> __);
              s_new_batch : (__ -> __ -> __ option);
              parse_iat_bh : (__ -> __ -> __); s_new_iat : (__ -> __ -> __);
              parse_entry : (__ -> __ -> __); s_add_entry : (__ -> __ -> __);
              parse_adventry : (__ -> __ -> __);
              s_add_adventry : (__ -> __ -> __);
              parse_iatentry : (__ -> __ -> __);
              s_add_iatentry : (__ -> __ -> __);
              parse_addenda : (__ -> __ -> ((rkind * __) * __) option);
              parse_bc : (__ -> __ -> __); s_cur_control : (__ -> __);
              s_cur_batch : (__ -> __); s_close_batch : (__ -> __);
              s_iat_control : (__ -> __); s_iat_batch : (__ -> __);
              s_close_iat : (__ -> __); parse_fc : (__ -> __ -> __) }

type rec0 = __

type fH = __

type entry = __

type batch = __

type iATBatch = __

type file = __

type st = __

(** val t_leaf : sig0 -> rkind -> rec0 vt **)

let t_leaf d k =
  match leaf_site k with
  | Some s ->
    And ((Chk (d.r_plain k)), (Skip (d.r_live, s, (Chk (d.r_guarded k)))))
  | None -> Chk (d.r_plain k)

(** val t_FileHeader : sig0 -> (fH -> bool) -> fH vt **)

let t_FileHeader d plive =
  seq ((Skip (d.fh_live, { s_func = (String ((Ascii (false, true, true,
    false, false, false, true, false)), (String ((Ascii (true, false, false,
    true, false, true, true, false)), (String ((Ascii (false, false, true,
    true, false, true, true, false)), (String ((Ascii (true, false, true,
    false, false, true, true, false)), (String ((Ascii (false, false, false,
    true, false, false, true, false)), (String ((Ascii (true, false, true,
    false, false, true, true, false)), (String ((Ascii (true, false, false,
    false, false, true, true, false)), (String ((Ascii (false, false, true,
    false, false, true, true, false)), (String ((Ascii (true, false, true,
    false, false, true, true, false)), (String ((Ascii (false, true, false,
    false, true, true, true, false)), (String ((Ascii (false, true, true,
    true, false, true, false, false)), (String ((Ascii (false, true, true,
    false, false, true, true, false)), (String ((Ascii (true, false, false,
    true, false, true, true, false)), (String ((Ascii (true, false, true,
    false, false, true, true, false)), (String ((Ascii (false, false, true,
    true, false, true, true, false)), (String ((Ascii (false, false, true,
    false, false, true, true, false)), (String ((Ascii (true, false, false,
    true, false, false, true, false)), (String ((Ascii (false, true, true,
    true, false, true, true, false)), (String ((Ascii (true, true, false,
    false, false, true, true, false)), (String ((Ascii (false, false, true,
    true, false, true, true, false)), (String ((Ascii (true, false, true,
    false, true, true, true, false)), (String ((Ascii (true, true, false,
    false, true, true, true, false)), (String ((Ascii (true, false, false,
    true, false, true, true, false)), (String ((Ascii (true, true, true,
    true, false, true, true, false)), (String ((Ascii (false, true, true,
    true, false, true, true, false)),
    EmptyString)))))))))))))))))))))))))))))))))))))))))))))))))); s_flag =
    AllowMissingFileHeader; s_occ = (S O) }, (Chk d.fh_incl))) :: ((Chk
    d.fh_basic) :: ((Skip (plive, { s_func = (String ((Ascii (false, true,
    true, false, false, false, true, false)), (String ((Ascii (true, false,
    false, true, false, true, true, false)), (String ((Ascii (false, false,
    true, true, false, true, true, false)), (String ((Ascii (true, false,
    true, false, false, true, true, false)), (String ((Ascii (false, false,
    false, true, false, false, true, false)), (String ((Ascii (true, false,
    true, false, false, true, true, false)), (String ((Ascii (true, false,
    false, false, false, true, true, false)), (String ((Ascii (false, false,
    true, false, false, true, true, false)), (String ((Ascii (true, false,
    true, false, false, true, true, false)), (String ((Ascii (false, true,
    false, false, true, true, true, false)), (String ((Ascii (false, true,
    true, true, false, true, false, false)), (String ((Ascii (false, true,
    true, false, true, false, true, false)), (String ((Ascii (true, false,
    false, false, false, true, true, false)), (String ((Ascii (false, false,
    true, true, false, true, true, false)), (String ((Ascii (true, false,
    false, true, false, true, true, false)), (String ((Ascii (false, false,
    true, false, false, true, true, false)), (String ((Ascii (true, false,
    false, false, false, true, true, false)), (String ((Ascii (false, false,
    true, false, true, true, true, false)), (String ((Ascii (true, false,
    true, false, false, true, true, false)), (String ((Ascii (true, true,
    true, false, true, false, true, false)), (String ((Ascii (true, false,
    false, true, false, true, true, false)), (String ((Ascii (false, false,
    true, false, true, true, true, false)), (String ((Ascii (false, false,
    false, true, false, true, true, false)),
    EmptyString)))))))))))))))))))))))))))))))))))))))))))))); s_flag =
    BypassOriginValidation; s_occ = (S O) }, (Chk d.fh_origin))) :: ((Skip
    (plive, { s_func = (String ((Ascii (false, true, true, false, false,
    false, true, false)), (String ((Ascii (true, false, false, true, false,
    true, true, false)), (String ((Ascii (false, false, true, true, false,
    true, true, false)), (String ((Ascii (true, false, true, false, false,
    true, true, false)), (String ((Ascii (false, false, false, true, false,
    false, true, false)), (String ((Ascii (true, false, true, false, false,
    true, true, false)), (String ((Ascii (true, false, false, false, false,
    true, true, false)), (String ((Ascii (false, false, true, false, false,
    true, true, false)), (String ((Ascii (true, false, true, false, false,
    true, true, false)), (String ((Ascii (false, true, false, false, true,
    true, true, false)), (String ((Ascii (false, true, true, true, false,
    true, false, false)), (String ((Ascii (false, true, true, false, true,
    false, true, false)), (String ((Ascii (true, false, false, false, false,
    true, true, false)), (String ((Ascii (false, false, true, true, false,
    true, true, false)), (String ((Ascii (true, false, false, true, false,
    true, true, false)), (String ((Ascii (false, false, true, false, false,
    true, true, false)), (String ((Ascii (true, false, false, false, false,
    true, true, false)), (String ((Ascii (false, false, true, false, true,
    true, true, false)), (String ((Ascii (true, false, true, false, false,
    true, true, false)), (String ((Ascii (true, true, true, false, true,
    false, true, false)), (String ((Ascii (true, false, false, true, false,
    true, true, false)), (String ((Ascii (false, false, true, false, true,
    true, true, false)), (String ((Ascii (false, false, false, true, false,
    true, true, false)),
    EmptyString)))))))))))))))))))))))))))))))))))))))))))))); s_flag =
    BypassDestinationValidation; s_occ = (S O) }, (Chk d.fh_dest))) :: ((Skip
    (d.fh_live, { s_func = (String ((Ascii (false, true, true, false, false,
    false, true, false)), (String ((Ascii (true, false, false, true, false,
    true, true, false)), (String ((Ascii (false, false, true, true, false,
    true, true, false)), (String ((Ascii (true, false, true, false, false,
    true, true, false)), (String ((Ascii (false, false, false, true, false,
    false, true, false)), (String ((Ascii (true, false, true, false, false,
    true, true, false)), (String ((Ascii (true, false, false, false, false,
    true, true, false)), (String ((Ascii (false, false, true, false, false,
    true, true, false)), (String ((Ascii (true, false, true, false, false,
    true, true, false)), (String ((Ascii (false, true, false, false, true,
    true, true, false)), (String ((Ascii (false, true, true, true, false,
    true, false, false)), (String ((Ascii (false, true, true, false, true,
    false, true, false)), (String ((Ascii (true, false, false, false, false,
    true, true, false)), (String ((Ascii (false, false, true, true, false,
    true, true, false)), (String ((Ascii (true, false, false, true, false,
    true, true, false)), (String ((Ascii (false, false, true, false, false,
    true, true, false)), (String ((Ascii (true, false, false, false, false,
    true, true, false)), (String ((Ascii (false, false, true, false, true,
    true, true, false)), (String ((Ascii (true, false, true, false, false,
    true, true, false)), (String ((Ascii (true, true, true, false, true,
    false, true, false)), (String ((Ascii (true, false, false, true, false,
    true, true, false)), (String ((Ascii (false, false, true, false, true,
    true, true, false)), (String ((Ascii (false, false, false, true, false,
    true, true, false)),
    EmptyString)))))))))))))))))))))))))))))))))))))))))))))); s_flag =
    AllowSpecialCharacters; s_occ = (S O) }, (Chk d.fh_special))) :: [])))))

(** val t_Entry : sig0 -> entry vt **)

let t_Entry d =
  seq ((Chk d.e_basic) :: ((Skip (d.e_live, { s_func = (String ((Ascii (true,
    false, true, false, false, false, true, false)), (String ((Ascii (false,
    true, true, true, false, true, true, false)), (String ((Ascii (false,
    false, true, false, true, true, true, false)), (String ((Ascii (false,
    true, false, false, true, true, true, false)), (String ((Ascii (true,
    false, false, true, true, true, true, false)), (String ((Ascii (false,
    false, true, false, false, false, true, false)), (String ((Ascii (true,
    false, true, false, false, true, true, false)), (String ((Ascii (false,
    false, true, false, true, true, true, false)), (String ((Ascii (true,
    false, false, false, false, true, true, false)), (String ((Ascii (true,
    false, false, true, false, true, true, false)), (String ((Ascii (false,
    false, true, true, false, true, true, false)), (String ((Ascii (false,
    true, true, true, false, true, false, false)), (String ((Ascii (false,
    true, true, false, true, false, true, false)), (String ((Ascii (true,
    false, false, false, false, true, true, false)), (String ((Ascii (false,
    false, true, true, false, true, true, false)), (String ((Ascii (true,
    false, false, true, false, true, true, false)), (String ((Ascii (false,
    false, true, false, false, true, true, false)), (String ((Ascii (true,
    false, false, false, false, true, true, false)), (String ((Ascii (false,
    false, true, false, true, true, true, false)), (String ((Ascii (true,
    false, true, false, false, true, true, false)),
    EmptyString)))))))))))))))))))))))))))))))))))))))); s_flag =
    AllowSpecialCharacters; s_occ = (S O) }, (Chk d.e_special))) :: ((Skip
    (d.e_live, { s_func = (String ((Ascii (true, false, true, false, false,
    false, true, false)), (String ((Ascii (false, true, true, true, false,
    true, true, false)), (String ((Ascii (false, false, true, false, true,
    true, true, false)), (String ((Ascii (false, true, false, false, true,
    true, true, false)), (String ((Ascii (true, false, false, true, true,
    true, true, false)), (String ((Ascii (false, false, true, false, false,
    false, true, false)), (String ((Ascii (true, false, true, false, false,
    true, true, false)), (String ((Ascii (false, false, true, false, true,
    true, true, false)), (String ((Ascii (true, false, false, false, false,
    true, true, false)), (String ((Ascii (true, false, false, true, false,
    true, true, false)), (String ((Ascii (false, false, true, true, false,
    true, true, false)), (String ((Ascii (false, true, true, true, false,
    true, false, false)), (String ((Ascii (false, true, true, false, true,
    false, true, false)), (String ((Ascii (true, false, false, false, false,
    true, true, false)), (String ((Ascii (false, false, true, true, false,
    true, true, false)), (String ((Ascii (true, false, false, true, false,
    true, true, false)), (String ((Ascii (false, false, true, false, false,
    true, true, false)), (String ((Ascii (true, false, false, false, false,
    true, true, false)), (String ((Ascii (false, false, true, false, true,
    true, true, false)), (String ((Ascii (true, false, true, false, false,
    true, true, false)), EmptyString))))))))))))))))))))))))))))))))))))))));
    s_flag = AllowInvalidCheckDigit; s_occ = (S O) }, (Chk
    d.e_checkdigit))) :: [])))

(** val t_entry_with_addenda : sig0 -> entry vt **)

let t_entry_with_addenda d =
  And ((t_Entry d),
    (seq
      (map (fun k -> Each ((d.e_addenda k), (t_leaf d k)))
        entry_addenda_kinds)))

(** val t_Batch_isFieldInclusion : sig0 -> batch vt **)

let t_Batch_isFieldInclusion d =
  And ((On (d.b_header, (t_leaf d KBatchHeader))), (Ite (d.b_isADV, (And
    ((Each (d.b_adventries, (And ((t_leaf d KADVEntry), (Each
    (d.adv_addenda99, (t_leaf d KA99))))))), (On (d.b_advcontrol,
    (t_leaf d KADVBatchControl))))), (And ((Each (d.b_entries,
    (t_entry_with_addenda d))), (On (d.b_control,
    (t_leaf d KBatchControl))))))))

(** val t_Batch_isBatchEntryCount : sig0 -> batch vt **)

let t_Batch_isBatchEntryCount d =
  Ite (d.b_isADV, (Skip (d.b_live, { s_func = (String ((Ascii (false, true,
    false, false, false, false, true, false)), (String ((Ascii (true, false,
    false, false, false, true, true, false)), (String ((Ascii (false, false,
    true, false, true, true, true, false)), (String ((Ascii (true, true,
    false, false, false, true, true, false)), (String ((Ascii (false, false,
    false, true, false, true, true, false)), (String ((Ascii (false, true,
    true, true, false, true, false, false)), (String ((Ascii (true, false,
    false, true, false, true, true, false)), (String ((Ascii (true, true,
    false, false, true, true, true, false)), (String ((Ascii (false, true,
    false, false, false, false, true, false)), (String ((Ascii (true, false,
    false, false, false, true, true, false)), (String ((Ascii (false, false,
    true, false, true, true, true, false)), (String ((Ascii (true, true,
    false, false, false, true, true, false)), (String ((Ascii (false, false,
    false, true, false, true, true, false)), (String ((Ascii (true, false,
    true, false, false, false, true, false)), (String ((Ascii (false, true,
    true, true, false, true, true, false)), (String ((Ascii (false, false,
    true, false, true, true, true, false)), (String ((Ascii (false, true,
    false, false, true, true, true, false)), (String ((Ascii (true, false,
    false, true, true, true, true, false)), (String ((Ascii (true, true,
    false, false, false, false, true, false)), (String ((Ascii (true, true,
    true, true, false, true, true, false)), (String ((Ascii (true, false,
    true, false, true, true, true, false)), (String ((Ascii (false, true,
    true, true, false, true, true, false)), (String ((Ascii (false, false,
    true, false, true, true, true, false)),
    EmptyString)))))))))))))))))))))))))))))))))))))))))))))); s_flag =
    UnequalAddendaCounts; s_occ = (S (S O)) }, (Chk d.b_adv_count_eq))),
    (Skip (d.b_live, { s_func = (String ((Ascii (false, true, false, false,
    false, false, true, false)), (String ((Ascii (true, false, false, false,
    false, true, true, false)), (String ((Ascii (false, false, true, false,
    true, true, true, false)), (String ((Ascii (true, true, false, false,
    false, true, true, false)), (String ((Ascii (false, false, false, true,
    false, true, true, false)), (String ((Ascii (false, true, true, true,
    false, true, false, false)), (String ((Ascii (true, false, false, true,
    false, true, true, false)), (String ((Ascii (true, true, false, false,
    true, true, true, false)), (String ((Ascii (false, true, false, false,
    false, false, true, false)), (String ((Ascii (true, false, false, false,
    false, true, true, false)), (String ((Ascii (false, false, true, false,
    true, true, true, false)), (String ((Ascii (true, true, false, false,
    false, true, true, false)), (String ((Ascii (false, false, false, true,
    false, true, true, false)), (String ((Ascii (true, false, true, false,
    false, false, true, false)), (String ((Ascii (false, true, true, true,
    false, true, true, false)), (String ((Ascii (false, false, true, false,
    true, true, true, false)), (String ((Ascii (false, true, false, false,
    true, true, true, false)), (String ((Ascii (true, false, false, true,
    true, true, true, false)), (String ((Ascii (true, true, false, false,
    false, false, true, false)), (String ((Ascii (true, true, true, true,
    false, true, true, false)), (String ((Ascii (true, false, true, false,
    true, true, true, false)), (String ((Ascii (false, true, true, true,
    false, true, true, false)), (String ((Ascii (false, false, true, false,
    true, true, true, false)),
    EmptyString)))))))))))))))))))))))))))))))))))))))))))))); s_flag =
    UnequalAddendaCounts; s_occ = (S O) }, (Chk d.b_count_eq))))

(** val t_Batch_isSequenceAscending : sig0 -> batch vt **)

let t_Batch_isSequenceAscending d =
  Ite (d.b_isADV, Pass, (Skip (d.b_live, { s_func = (String ((Ascii (false,
    true, false, false, false, false, true, false)), (String ((Ascii (true,
    false, false, false, false, true, true, false)), (String ((Ascii (false,
    false, true, false, true, true, true, false)), (String ((Ascii (true,
    true, false, false, false, true, true, false)), (String ((Ascii (false,
    false, false, true, false, true, true, false)), (String ((Ascii (false,
    true, true, true, false, true, false, false)), (String ((Ascii (true,
    false, false, true, false, true, true, false)), (String ((Ascii (true,
    true, false, false, true, true, true, false)), (String ((Ascii (true,
    true, false, false, true, false, true, false)), (String ((Ascii (true,
    false, true, false, false, true, true, false)), (String ((Ascii (true,
    false, false, false, true, true, true, false)), (String ((Ascii (true,
    false, true, false, true, true, true, false)), (String ((Ascii (true,
    false, true, false, false, true, true, false)), (String ((Ascii (false,
    true, true, true, false, true, true, false)), (String ((Ascii (true,
    true, false, false, false, true, true, false)), (String ((Ascii (true,
    false, true, false, false, true, true, false)), (String ((Ascii (true,
    false, false, false, false, false, true, false)), (String ((Ascii (true,
    true, false, false, true, true, true, false)), (String ((Ascii (true,
    true, false, false, false, true, true, false)), (String ((Ascii (true,
    false, true, false, false, true, true, false)), (String ((Ascii (false,
    true, true, true, false, true, true, false)), (String ((Ascii (false,
    false, true, false, false, true, true, false)), (String ((Ascii (true,
    false, false, true, false, true, true, false)), (String ((Ascii (false,
    true, true, true, false, true, true, false)), (String ((Ascii (true,
    true, true, false, false, true, true, false)),
    EmptyString)))))))))))))))))))))))))))))))))))))))))))))))))); s_flag =
    CustomTraceNumbers; s_occ = (S O) }, (Chk d.b_ascending))))

(** val t_Batch_isTraceNumberODFI : sig0 -> batch vt **)

let t_Batch_isTraceNumberODFI d =
  Skip (d.b_live, { s_func = (String ((Ascii (false, true, false, false,
    false, false, true, false)), (String ((Ascii (true, false, false, false,
    false, true, true, false)), (String ((Ascii (false, false, true, false,
    true, true, true, false)), (String ((Ascii (true, true, false, false,
    false, true, true, false)), (String ((Ascii (false, false, false, true,
    false, true, true, false)), (String ((Ascii (false, true, true, true,
    false, true, false, false)), (String ((Ascii (true, false, false, true,
    false, true, true, false)), (String ((Ascii (true, true, false, false,
    true, true, true, false)), (String ((Ascii (false, false, true, false,
    true, false, true, false)), (String ((Ascii (false, true, false, false,
    true, true, true, false)), (String ((Ascii (true, false, false, false,
    false, true, true, false)), (String ((Ascii (true, true, false, false,
    false, true, true, false)), (String ((Ascii (true, false, true, false,
    false, true, true, false)), (String ((Ascii (false, true, true, true,
    false, false, true, false)), (String ((Ascii (true, false, true, false,
    true, true, true, false)), (String ((Ascii (true, false, true, true,
    false, true, true, false)), (String ((Ascii (false, true, false, false,
    false, true, true, false)), (String ((Ascii (true, false, true, false,
    false, true, true, false)), (String ((Ascii (false, true, false, false,
    true, true, true, false)), (String ((Ascii (true, true, true, true,
    false, false, true, false)), (String ((Ascii (false, false, true, false,
    false, false, true, false)), (String ((Ascii (false, true, true, false,
    false, false, true, false)), (String ((Ascii (true, false, false, true,
    false, false, true, false)),
    EmptyString)))))))))))))))))))))))))))))))))))))))))))))); s_flag =
    BypassOriginValidation; s_occ = (S O) }, (Chk d.b_trace_odfi))

(** val t_Batch_verify : sig0 -> batch vt **)

let t_Batch_verify d =
  seq ((Chk d.b_has_entries) :: ((t_Batch_isFieldInclusion d) :: ((Ite
    (d.b_isADV,
    (seq ((Skip (d.b_live, { s_func = (String ((Ascii (false, true, false,
      false, false, false, true, false)), (String ((Ascii (true, false,
      false, false, false, true, true, false)), (String ((Ascii (false,
      false, true, false, true, true, true, false)), (String ((Ascii (true,
      true, false, false, false, true, true, false)), (String ((Ascii (false,
      false, false, true, false, true, true, false)), (String ((Ascii (false,
      true, true, true, false, true, false, false)), (String ((Ascii (false,
      true, true, false, true, true, true, false)), (String ((Ascii (true,
      false, true, false, false, true, true, false)), (String ((Ascii (false,
      true, false, false, true, true, true, false)), (String ((Ascii (true,
      false, false, true, false, true, true, false)), (String ((Ascii (false,
      true, true, false, false, true, true, false)), (String ((Ascii (true,
      false, false, true, true, true, true, false)),
      EmptyString)))))))))))))))))))))))); s_flag = UnequalServiceClassCode;
      s_occ = (S (S O)) }, (Chk d.b_adv_scc_eq))) :: ((Chk
      d.b_adv_odfi_eq) :: ((Chk d.b_adv_num_eq) :: [])))),
    (seq ((Skip (d.b_live, { s_func = (String ((Ascii (false, true, false,
      false, false, false, true, false)), (String ((Ascii (true, false,
      false, false, false, true, true, false)), (String ((Ascii (false,
      false, true, false, true, true, true, false)), (String ((Ascii (true,
      true, false, false, false, true, true, false)), (String ((Ascii (false,
      false, false, true, false, true, true, false)), (String ((Ascii (false,
      true, true, true, false, true, false, false)), (String ((Ascii (false,
      true, true, false, true, true, true, false)), (String ((Ascii (true,
      false, true, false, false, true, true, false)), (String ((Ascii (false,
      true, false, false, true, true, true, false)), (String ((Ascii (true,
      false, false, true, false, true, true, false)), (String ((Ascii (false,
      true, true, false, false, true, true, false)), (String ((Ascii (true,
      false, false, true, true, true, true, false)),
      EmptyString)))))))))))))))))))))))); s_flag = UnequalServiceClassCode;
      s_occ = (S O) }, (Chk d.b_scc_eq))) :: ((Skip (d.b_live, { s_func =
      (String ((Ascii (false, true, false, false, false, false, true,
      false)), (String ((Ascii (true, false, false, false, false, true, true,
      false)), (String ((Ascii (false, false, true, false, true, true, true,
      false)), (String ((Ascii (true, true, false, false, false, true, true,
      false)), (String ((Ascii (false, false, false, true, false, true, true,
      false)), (String ((Ascii (false, true, true, true, false, true, false,
      false)), (String ((Ascii (false, true, true, false, true, true, true,
      false)), (String ((Ascii (true, false, true, false, false, true, true,
      false)), (String ((Ascii (false, true, false, false, true, true, true,
      false)), (String ((Ascii (true, false, false, true, false, true, true,
      false)), (String ((Ascii (false, true, true, false, false, true, true,
      false)), (String ((Ascii (true, false, false, true, true, true, true,
      false)), EmptyString)))))))))))))))))))))))); s_flag =
      BypassCompanyIdentificationMatch; s_occ = (S O) }, (Chk
      d.b_cid_eq))) :: ((Chk d.b_odfi_eq) :: ((Chk d.b_num_eq) :: []))))))) :: (
    (t_Batch_isBatchEntryCount d) :: ((Skip (d.b_live, { s_func = (String
    ((Ascii (false, true, false, false, false, false, true, false)), (String
    ((Ascii (true, false, false, false, false, true, true, false)), (String
    ((Ascii (false, false, true, false, true, true, true, false)), (String
    ((Ascii (true, true, false, false, false, true, true, false)), (String
    ((Ascii (false, false, false, true, false, true, true, false)), (String
    ((Ascii (false, true, true, true, false, true, false, false)), (String
    ((Ascii (false, true, true, false, true, true, true, false)), (String
    ((Ascii (true, false, true, false, false, true, true, false)), (String
    ((Ascii (false, true, false, false, true, true, true, false)), (String
    ((Ascii (true, false, false, true, false, true, true, false)), (String
    ((Ascii (false, true, true, false, false, true, true, false)), (String
    ((Ascii (true, false, false, true, true, true, true, false)),
    EmptyString)))))))))))))))))))))))); s_flag = CustomTraceNumbers; s_occ =
    (S O) }, (t_Batch_isSequenceAscending d))) :: ((Chk d.b_amount) :: ((Chk
    d.b_hash) :: ((Chk d.b_dne) :: ((Skip (d.b_live, { s_func = (String
    ((Ascii (false, true, false, false, false, false, true, false)), (String
    ((Ascii (true, false, false, false, false, true, true, false)), (String
    ((Ascii (false, false, true, false, true, true, true, false)), (String
    ((Ascii (true, true, false, false, false, true, true, false)), (String
    ((Ascii (false, false, false, true, false, true, true, false)), (String
    ((Ascii (false, true, true, true, false, true, false, false)), (String
    ((Ascii (false, true, true, false, true, true, true, false)), (String
    ((Ascii (true, false, true, false, false, true, true, false)), (String
    ((Ascii (false, true, false, false, true, true, true, false)), (String
    ((Ascii (true, false, false, true, false, true, true, false)), (String
    ((Ascii (false, true, true, false, false, true, true, false)), (String
    ((Ascii (true, false, false, true, true, true, true, false)),
    EmptyString)))))))))))))))))))))))); s_flag = CustomTraceNumbers; s_occ =
    (S (S O)) }, (And ((t_Batch_isTraceNumberODFI d), (Chk
    d.b_addenda_seq))))) :: ((Chk d.b_category) :: []))))))))))

(** val be_live : sig0 -> (batch * entry) -> bool **)

let be_live d p =
  d.b_live (fst p)

(** val t_ValidAmountForCodes : sig0 -> (batch * entry) vt **)

let t_ValidAmountForCodes d =
  Skip ((be_live d), { s_func = (String ((Ascii (false, true, false, false,
    false, false, true, false)), (String ((Ascii (true, false, false, false,
    false, true, true, false)), (String ((Ascii (false, false, true, false,
    true, true, true, false)), (String ((Ascii (true, true, false, false,
    false, true, true, false)), (String ((Ascii (false, false, false, true,
    false, true, true, false)), (String ((Ascii (false, true, true, true,
    false, true, false, false)), (String ((Ascii (false, true, true, false,
    true, false, true, false)), (String ((Ascii (true, false, false, false,
    false, true, true, false)), (String ((Ascii (false, false, true, true,
    false, true, true, false)), (String ((Ascii (true, false, false, true,
    false, true, true, false)), (String ((Ascii (false, false, true, false,
    false, true, true, false)), (String ((Ascii (true, false, false, false,
    false, false, true, false)), (String ((Ascii (true, false, true, true,
    false, true, true, false)), (String ((Ascii (true, true, true, true,
    false, true, true, false)), (String ((Ascii (true, false, true, false,
    true, true, true, false)), (String ((Ascii (false, true, true, true,
    false, true, true, false)), (String ((Ascii (false, false, true, false,
    true, true, true, false)), (String ((Ascii (false, true, true, false,
    false, false, true, false)), (String ((Ascii (true, true, true, true,
    false, true, true, false)), (String ((Ascii (false, true, false, false,
    true, true, true, false)), (String ((Ascii (true, true, false, false,
    false, false, true, false)), (String ((Ascii (true, true, true, true,
    false, true, true, false)), (String ((Ascii (false, false, true, false,
    false, true, true, false)), (String ((Ascii (true, false, true, false,
    false, true, true, false)), (String ((Ascii (true, true, false, false,
    true, true, true, false)),
    EmptyString)))))))))))))))))))))))))))))))))))))))))))))))))); s_flag =
    AllowInvalidAmounts; s_occ = (S O) }, (Ite (d.be_noc, (Chk
    d.be_amount_zero), (Ite (d.be_return, Pass, (Ite (d.be_prenote, (Chk
    d.be_amount_zero), (Ite (d.be_amount_zero, (Skip ((be_live d), { s_func =
    (String ((Ascii (false, true, false, false, false, false, true, false)),
    (String ((Ascii (true, false, false, false, false, true, true, false)),
    (String ((Ascii (false, false, true, false, true, true, true, false)),
    (String ((Ascii (true, true, false, false, false, true, true, false)),
    (String ((Ascii (false, false, false, true, false, true, true, false)),
    (String ((Ascii (false, true, true, true, false, true, false, false)),
    (String ((Ascii (false, true, true, false, true, false, true, false)),
    (String ((Ascii (true, false, false, false, false, true, true, false)),
    (String ((Ascii (false, false, true, true, false, true, true, false)),
    (String ((Ascii (true, false, false, true, false, true, true, false)),
    (String ((Ascii (false, false, true, false, false, true, true, false)),
    (String ((Ascii (true, false, false, false, false, false, true, false)),
    (String ((Ascii (true, false, true, true, false, true, true, false)),
    (String ((Ascii (true, true, true, true, false, true, true, false)),
    (String ((Ascii (true, false, true, false, true, true, true, false)),
    (String ((Ascii (false, true, true, true, false, true, true, false)),
    (String ((Ascii (false, false, true, false, true, true, true, false)),
    (String ((Ascii (false, true, true, false, false, false, true, false)),
    (String ((Ascii (true, true, true, true, false, true, true, false)),
    (String ((Ascii (false, true, false, false, true, true, true, false)),
    (String ((Ascii (true, true, false, false, false, false, true, false)),
    (String ((Ascii (true, true, true, true, false, true, true, false)),
    (String ((Ascii (false, false, true, false, false, true, true, false)),
    (String ((Ascii (true, false, true, false, false, true, true, false)),
    (String ((Ascii (true, true, false, false, true, true, true, false)),
    EmptyString)))))))))))))))))))))))))))))))))))))))))))))))))); s_flag =
    AllowZeroEntryAmount; s_occ = (S O) }, (Chk d.be_zero_remittance))),
    Pass)))))))))

(** val pairs : sig0 -> batch -> (batch * entry) list **)

let pairs d b =
  map (fun x -> (b, x)) (d.b_entries b)

(** val t_Batch_Validate : sig0 -> batch vt **)

let t_Batch_Validate d =
  seq ((t_Batch_verify d) :: ((Chk d.b_sec_checks) :: ((Ite (d.b_isADV, Pass,
    (Each ((Obj.magic pairs d), (And ((Ite ((fun p ->
    d.b_isCTX (fst (Obj.magic p))), (Skip ((Obj.magic be_live d), { s_func =
    (String ((Ascii (false, true, false, false, false, false, true, false)),
    (String ((Ascii (true, false, false, false, false, true, true, false)),
    (String ((Ascii (false, false, true, false, true, true, true, false)),
    (String ((Ascii (true, true, false, false, false, true, true, false)),
    (String ((Ascii (false, false, false, true, false, true, true, false)),
    (String ((Ascii (true, true, false, false, false, false, true, false)),
    (String ((Ascii (false, false, true, false, true, false, true, false)),
    (String ((Ascii (false, false, false, true, true, false, true, false)),
    (String ((Ascii (false, true, true, true, false, true, false, false)),
    (String ((Ascii (false, true, true, false, true, false, true, false)),
    (String ((Ascii (true, false, false, false, false, true, true, false)),
    (String ((Ascii (false, false, true, true, false, true, true, false)),
    (String ((Ascii (true, false, false, true, false, true, true, false)),
    (String ((Ascii (false, false, true, false, false, true, true, false)),
    (String ((Ascii (true, false, false, false, false, true, true, false)),
    (String ((Ascii (false, false, true, false, true, true, true, false)),
    (String ((Ascii (true, false, true, false, false, true, true, false)),
    EmptyString)))))))))))))))))))))))))))))))))); s_flag =
    UnequalAddendaCounts; s_occ = (S O) }, (Chk
    (Obj.magic d.be_ctx_count)))), Pass)),
    (Obj.magic t_ValidAmountForCodes d))))))) :: [])))

(** val t_iat_entry : sig0 -> rec0 vt **)

let t_iat_entry d =
  seq ((t_leaf d KIATEntry) :: ((Chk
    d.ie_incl) :: ((seq
                     (map (fun k -> Each ((d.ie_addenda k), (t_leaf d k)))
                       iat_addenda_kinds)) :: [])))

(** val t_IATBatch_verify : sig0 -> iATBatch vt **)

let t_IATBatch_verify d =
  seq ((Chk d.ib_has_entries) :: ((On (d.ib_header,
    (t_leaf d KIATBatchHeader))) :: ((Each (d.ib_entries,
    (t_iat_entry d))) :: ((On (d.ib_control,
    (t_leaf d KBatchControl))) :: ((Skip (d.ib_live, { s_func = (String
    ((Ascii (true, false, false, true, false, false, true, false)), (String
    ((Ascii (true, false, false, false, false, false, true, false)), (String
    ((Ascii (false, false, true, false, true, false, true, false)), (String
    ((Ascii (false, true, false, false, false, false, true, false)), (String
    ((Ascii (true, false, false, false, false, true, true, false)), (String
    ((Ascii (false, false, true, false, true, true, true, false)), (String
    ((Ascii (true, true, false, false, false, true, true, false)), (String
    ((Ascii (false, false, false, true, false, true, true, false)), (String
    ((Ascii (false, true, true, true, false, true, false, false)), (String
    ((Ascii (false, true, true, false, true, true, true, false)), (String
    ((Ascii (true, false, true, false, false, true, true, false)), (String
    ((Ascii (false, true, false, false, true, true, true, false)), (String
    ((Ascii (true, false, false, true, false, true, true, false)), (String
    ((Ascii (false, true, true, false, false, true, true, false)), (String
    ((Ascii (true, false, false, true, true, true, true, false)),
    EmptyString)))))))))))))))))))))))))))))); s_flag =
    UnequalServiceClassCode; s_occ = (S O) }, (Chk d.ib_scc_eq))) :: ((Chk
    d.ib_odfi_eq) :: ((Chk d.ib_num_eq) :: ((Skip (d.ib_live, { s_func =
    (String ((Ascii (true, false, false, true, false, false, true, false)),
    (String ((Ascii (true, false, false, false, false, false, true, false)),
    (String ((Ascii (false, false, true, false, true, false, true, false)),
    (String ((Ascii (false, true, false, false, false, false, true, false)),
    (String ((Ascii (true, false, false, false, false, true, true, false)),
    (String ((Ascii (false, false, true, false, true, true, true, false)),
    (String ((Ascii (true, true, false, false, false, true, true, false)),
    (String ((Ascii (false, false, false, true, false, true, true, false)),
    (String ((Ascii (false, true, true, true, false, true, false, false)),
    (String ((Ascii (false, true, true, false, true, true, true, false)),
    (String ((Ascii (true, false, true, false, false, true, true, false)),
    (String ((Ascii (false, true, false, false, true, true, true, false)),
    (String ((Ascii (true, false, false, true, false, true, true, false)),
    (String ((Ascii (false, true, true, false, false, true, true, false)),
    (String ((Ascii (true, false, false, true, true, true, true, false)),
    EmptyString)))))))))))))))))))))))))))))); s_flag =
    AllowSpecialCharacters; s_occ = (S O) }, (Chk
    d.ib_cid_special))) :: ((Skip (d.ib_live, { s_func = (String ((Ascii
    (true, false, false, true, false, false, true, false)), (String ((Ascii
    (true, false, false, false, false, false, true, false)), (String ((Ascii
    (false, false, true, false, true, false, true, false)), (String ((Ascii
    (false, true, false, false, false, false, true, false)), (String ((Ascii
    (true, false, false, false, false, true, true, false)), (String ((Ascii
    (false, false, true, false, true, true, true, false)), (String ((Ascii
    (true, true, false, false, false, true, true, false)), (String ((Ascii
    (false, false, false, true, false, true, true, false)), (String ((Ascii
    (false, true, true, true, false, true, false, false)), (String ((Ascii
    (true, false, false, true, false, true, true, false)), (String ((Ascii
    (true, true, false, false, true, true, true, false)), (String ((Ascii
    (false, true, false, false, false, false, true, false)), (String ((Ascii
    (true, false, false, false, false, true, true, false)), (String ((Ascii
    (false, false, true, false, true, true, true, false)), (String ((Ascii
    (true, true, false, false, false, true, true, false)), (String ((Ascii
    (false, false, false, true, false, true, true, false)), (String ((Ascii
    (true, false, true, false, false, false, true, false)), (String ((Ascii
    (false, true, true, true, false, true, true, false)), (String ((Ascii
    (false, false, true, false, true, true, true, false)), (String ((Ascii
    (false, true, false, false, true, true, true, false)), (String ((Ascii
    (true, false, false, true, true, true, true, false)), (String ((Ascii
    (true, true, false, false, false, false, true, false)), (String ((Ascii
    (true, true, true, true, false, true, true, false)), (String ((Ascii
    (true, false, true, false, true, true, true, false)), (String ((Ascii
    (false, true, true, true, false, true, true, false)), (String ((Ascii
    (false, false, true, false, true, true, true, false)),
    EmptyString)))))))))))))))))))))))))))))))))))))))))))))))))))); s_flag =
    UnequalAddendaCounts; s_occ = (S O) }, (Chk d.ib_count_eq))) :: ((Skip
    (d.ib_live, { s_func = (String ((Ascii (true, false, false, true, false,
    false, true, false)), (String ((Ascii (true, false, false, false, false,
    false, true, false)), (String ((Ascii (false, false, true, false, true,
    false, true, false)), (String ((Ascii (false, true, false, false, false,
    false, true, false)), (String ((Ascii (true, false, false, false, false,
    true, true, false)), (String ((Ascii (false, false, true, false, true,
    true, true, false)), (String ((Ascii (true, true, false, false, false,
    true, true, false)), (String ((Ascii (false, false, false, true, false,
    true, true, false)), (String ((Ascii (false, true, true, true, false,
    true, false, false)), (String ((Ascii (false, true, true, false, true,
    true, true, false)), (String ((Ascii (true, false, true, false, false,
    true, true, false)), (String ((Ascii (false, true, false, false, true,
    true, true, false)), (String ((Ascii (true, false, false, true, false,
    true, true, false)), (String ((Ascii (false, true, true, false, false,
    true, true, false)), (String ((Ascii (true, false, false, true, true,
    true, true, false)), EmptyString)))))))))))))))))))))))))))))); s_flag =
    CustomTraceNumbers; s_occ = (S O) }, (Skip (d.ib_live, { s_func = (String
    ((Ascii (true, false, false, true, false, false, true, false)), (String
    ((Ascii (true, false, false, false, false, false, true, false)), (String
    ((Ascii (false, false, true, false, true, false, true, false)), (String
    ((Ascii (false, true, false, false, false, false, true, false)), (String
    ((Ascii (true, false, false, false, false, true, true, false)), (String
    ((Ascii (false, false, true, false, true, true, true, false)), (String
    ((Ascii (true, true, false, false, false, true, true, false)), (String
    ((Ascii (false, false, false, true, false, true, true, false)), (String
    ((Ascii (false, true, true, true, false, true, false, false)), (String
    ((Ascii (true, false, false, true, false, true, true, false)), (String
    ((Ascii (true, true, false, false, true, true, true, false)), (String
    ((Ascii (true, true, false, false, true, false, true, false)), (String
    ((Ascii (true, false, true, false, false, true, true, false)), (String
    ((Ascii (true, false, false, false, true, true, true, false)), (String
    ((Ascii (true, false, true, false, true, true, true, false)), (String
    ((Ascii (true, false, true, false, false, true, true, false)), (String
    ((Ascii (false, true, true, true, false, true, true, false)), (String
    ((Ascii (true, true, false, false, false, true, true, false)), (String
    ((Ascii (true, false, true, false, false, true, true, false)), (String
    ((Ascii (true, false, false, false, false, false, true, false)), (String
    ((Ascii (true, true, false, false, true, true, true, false)), (String
    ((Ascii (true, true, false, false, false, true, true, false)), (String
    ((Ascii (true, false, true, false, false, true, true, false)), (String
    ((Ascii (false, true, true, true, false, true, true, false)), (String
    ((Ascii (false, false, true, false, false, true, true, false)), (String
    ((Ascii (true, false, false, true, false, true, true, false)), (String
    ((Ascii (false, true, true, true, false, true, true, false)), (String
    ((Ascii (true, true, true, false, false, true, true, false)),
    EmptyString))))))))))))))))))))))))))))))))))))))))))))))))))))))));
    s_flag = CustomTraceNumbers; s_occ = (S O) }, (Chk
    d.ib_ascending))))) :: ((Chk d.ib_amount) :: ((Chk d.ib_hash) :: ((Skip
    (d.ib_live, { s_func = (String ((Ascii (true, false, false, true, false,
    false, true, false)), (String ((Ascii (true, false, false, false, false,
    false, true, false)), (String ((Ascii (false, false, true, false, true,
    false, true, false)), (String ((Ascii (false, true, false, false, false,
    false, true, false)), (String ((Ascii (true, false, false, false, false,
    true, true, false)), (String ((Ascii (false, false, true, false, true,
    true, true, false)), (String ((Ascii (true, true, false, false, false,
    true, true, false)), (String ((Ascii (false, false, false, true, false,
    true, true, false)), (String ((Ascii (false, true, true, true, false,
    true, false, false)), (String ((Ascii (false, true, true, false, true,
    true, true, false)), (String ((Ascii (true, false, true, false, false,
    true, true, false)), (String ((Ascii (false, true, false, false, true,
    true, true, false)), (String ((Ascii (true, false, false, true, false,
    true, true, false)), (String ((Ascii (false, true, true, false, false,
    true, true, false)), (String ((Ascii (true, false, false, true, true,
    true, true, false)), EmptyString)))))))))))))))))))))))))))))); s_flag =
    CustomTraceNumbers; s_occ = (S (S O)) }, (And ((Skip (d.ib_live,
    { s_func = (String ((Ascii (true, false, false, true, false, false, true,
    false)), (String ((Ascii (true, false, false, false, false, false, true,
    false)), (String ((Ascii (false, false, true, false, true, false, true,
    false)), (String ((Ascii (false, true, false, false, false, false, true,
    false)), (String ((Ascii (true, false, false, false, false, true, true,
    false)), (String ((Ascii (false, false, true, false, true, true, true,
    false)), (String ((Ascii (true, true, false, false, false, true, true,
    false)), (String ((Ascii (false, false, false, true, false, true, true,
    false)), (String ((Ascii (false, true, true, true, false, true, false,
    false)), (String ((Ascii (true, false, false, true, false, true, true,
    false)), (String ((Ascii (true, true, false, false, true, true, true,
    false)), (String ((Ascii (false, false, true, false, true, false, true,
    false)), (String ((Ascii (false, true, false, false, true, true, true,
    false)), (String ((Ascii (true, false, false, false, false, true, true,
    false)), (String ((Ascii (true, true, false, false, false, true, true,
    false)), (String ((Ascii (true, false, true, false, false, true, true,
    false)), (String ((Ascii (false, true, true, true, false, false, true,
    false)), (String ((Ascii (true, false, true, false, true, true, true,
    false)), (String ((Ascii (true, false, true, true, false, true, true,
    false)), (String ((Ascii (false, true, false, false, false, true, true,
    false)), (String ((Ascii (true, false, true, false, false, true, true,
    false)), (String ((Ascii (false, true, false, false, true, true, true,
    false)), (String ((Ascii (true, true, true, true, false, false, true,
    false)), (String ((Ascii (false, false, true, false, false, false, true,
    false)), (String ((Ascii (false, true, true, false, false, false, true,
    false)), (String ((Ascii (true, false, false, true, false, false, true,
    false)), EmptyString))))))))))))))))))))))))))))))))))))))))))))))))))));
    s_flag = BypassOriginValidation; s_occ = (S O) }, (Chk
    d.ib_trace_odfi))), (Chk d.ib_addenda_seq))))) :: ((Chk
    d.ib_category) :: []))))))))))))))

(** val t_IATBatch_Validate : sig0 -> iATBatch vt **)

let t_IATBatch_Validate d =
  And ((t_IATBatch_verify d), (Chk d.ib_rules))

(** val t_File_ValidateWith : sig0 -> file vt **)

let t_File_ValidateWith d =
  And ((Skip (always, { s_func = (String ((Ascii (false, true, true, false,
    false, false, true, false)), (String ((Ascii (true, false, false, true,
    false, true, true, false)), (String ((Ascii (false, false, true, true,
    false, true, true, false)), (String ((Ascii (true, false, true, false,
    false, true, true, false)), (String ((Ascii (false, true, true, true,
    false, true, false, false)), (String ((Ascii (false, true, true, false,
    true, false, true, false)), (String ((Ascii (true, false, false, false,
    false, true, true, false)), (String ((Ascii (false, false, true, true,
    false, true, true, false)), (String ((Ascii (true, false, false, true,
    false, true, true, false)), (String ((Ascii (false, false, true, false,
    false, true, true, false)), (String ((Ascii (true, false, false, false,
    false, true, true, false)), (String ((Ascii (false, false, true, false,
    true, true, true, false)), (String ((Ascii (true, false, true, false,
    false, true, true, false)), (String ((Ascii (true, true, true, false,
    true, false, true, false)), (String ((Ascii (true, false, false, true,
    false, true, true, false)), (String ((Ascii (false, false, true, false,
    true, true, true, false)), (String ((Ascii (false, false, false, true,
    false, true, true, false)),
    EmptyString)))))))))))))))))))))))))))))))))); s_flag =
    AllowMissingFileHeader; s_occ = (S O) }, (On (d.f_header,
    (t_FileHeader d always))))), (Ite (d.f_isADV,
    (seq ((Chk d.f_adv_batchcount) :: ((Skip (always, { s_func = (String
      ((Ascii (false, true, true, false, false, false, true, false)), (String
      ((Ascii (true, false, false, true, false, true, true, false)), (String
      ((Ascii (false, false, true, true, false, true, true, false)), (String
      ((Ascii (true, false, true, false, false, true, true, false)), (String
      ((Ascii (false, true, true, true, false, true, false, false)), (String
      ((Ascii (false, true, true, false, true, false, true, false)), (String
      ((Ascii (true, false, false, false, false, true, true, false)), (String
      ((Ascii (false, false, true, true, false, true, true, false)), (String
      ((Ascii (true, false, false, true, false, true, true, false)), (String
      ((Ascii (false, false, true, false, false, true, true, false)), (String
      ((Ascii (true, false, false, false, false, true, true, false)), (String
      ((Ascii (false, false, true, false, true, true, true, false)), (String
      ((Ascii (true, false, true, false, false, true, true, false)), (String
      ((Ascii (true, true, true, false, true, false, true, false)), (String
      ((Ascii (true, false, false, true, false, true, true, false)), (String
      ((Ascii (false, false, true, false, true, true, true, false)), (String
      ((Ascii (false, false, false, true, false, true, true, false)),
      EmptyString)))))))))))))))))))))))))))))))))); s_flag =
      AllowMissingFileControl; s_occ = (S (S O)) }, (On (d.f_advcontrol,
      (t_leaf d KADVFileControl))))) :: ((Skip (d.f_live, { s_func = (String
      ((Ascii (false, true, true, false, false, false, true, false)), (String
      ((Ascii (true, false, false, true, false, true, true, false)), (String
      ((Ascii (false, false, true, true, false, true, true, false)), (String
      ((Ascii (true, false, true, false, false, true, true, false)), (String
      ((Ascii (false, true, true, true, false, true, false, false)), (String
      ((Ascii (true, false, false, true, false, true, true, false)), (String
      ((Ascii (true, true, false, false, true, true, true, false)), (String
      ((Ascii (true, false, true, false, false, false, true, false)), (String
      ((Ascii (false, true, true, true, false, true, true, false)), (String
      ((Ascii (false, false, true, false, true, true, true, false)), (String
      ((Ascii (false, true, false, false, true, true, true, false)), (String
      ((Ascii (true, false, false, true, true, true, true, false)), (String
      ((Ascii (true, false, false, false, false, false, true, false)),
      (String ((Ascii (false, false, true, false, false, true, true, false)),
      (String ((Ascii (false, false, true, false, false, true, true, false)),
      (String ((Ascii (true, false, true, false, false, true, true, false)),
      (String ((Ascii (false, true, true, true, false, true, true, false)),
      (String ((Ascii (false, false, true, false, false, true, true, false)),
      (String ((Ascii (true, false, false, false, false, true, true, false)),
      (String ((Ascii (true, true, false, false, false, false, true, false)),
      (String ((Ascii (true, true, true, true, false, true, true, false)),
      (String ((Ascii (true, false, true, false, true, true, true, false)),
      (String ((Ascii (false, true, true, true, false, true, true, false)),
      (String ((Ascii (false, false, true, false, true, true, true, false)),
      EmptyString)))))))))))))))))))))))))))))))))))))))))))))))); s_flag =
      UnequalAddendaCounts; s_occ = (S (S O)) }, (Chk d.f_adv_eac))) :: ((Chk
      d.f_adv_amount) :: ((Chk d.f_adv_hash) :: [])))))),
    (seq ((Chk d.f_batchcount) :: ((Each (d.f_batches,
      (t_Batch_Validate d))) :: ((Skip (always, { s_func = (String ((Ascii
      (false, true, true, false, false, false, true, false)), (String ((Ascii
      (true, false, false, true, false, true, true, false)), (String ((Ascii
      (false, false, true, true, false, true, true, false)), (String ((Ascii
      (true, false, true, false, false, true, true, false)), (String ((Ascii
      (false, true, true, true, false, true, false, false)), (String ((Ascii
      (false, true, true, false, true, false, true, false)), (String ((Ascii
      (true, false, false, false, false, true, true, false)), (String ((Ascii
      (false, false, true, true, false, true, true, false)), (String ((Ascii
      (true, false, false, true, false, true, true, false)), (String ((Ascii
      (false, false, true, false, false, true, true, false)), (String ((Ascii
      (true, false, false, false, false, true, true, false)), (String ((Ascii
      (false, false, true, false, true, true, true, false)), (String ((Ascii
      (true, false, true, false, false, true, true, false)), (String ((Ascii
      (true, true, true, false, true, false, true, false)), (String ((Ascii
      (true, false, false, true, false, true, true, false)), (String ((Ascii
      (false, false, true, false, true, true, true, false)), (String ((Ascii
      (false, false, false, true, false, true, true, false)),
      EmptyString)))))))))))))))))))))))))))))))))); s_flag =
      AllowMissingFileControl; s_occ = (S O) }, (On (d.f_control,
      (t_leaf d KFileControl))))) :: ((Skip (d.f_live, { s_func = (String
      ((Ascii (false, true, true, false, false, false, true, false)), (String
      ((Ascii (true, false, false, true, false, true, true, false)), (String
      ((Ascii (false, false, true, true, false, true, true, false)), (String
      ((Ascii (true, false, true, false, false, true, true, false)), (String
      ((Ascii (false, true, true, true, false, true, false, false)), (String
      ((Ascii (true, false, false, true, false, true, true, false)), (String
      ((Ascii (true, true, false, false, true, true, true, false)), (String
      ((Ascii (true, false, true, false, false, false, true, false)), (String
      ((Ascii (false, true, true, true, false, true, true, false)), (String
      ((Ascii (false, false, true, false, true, true, true, false)), (String
      ((Ascii (false, true, false, false, true, true, true, false)), (String
      ((Ascii (true, false, false, true, true, true, true, false)), (String
      ((Ascii (true, false, false, false, false, false, true, false)),
      (String ((Ascii (false, false, true, false, false, true, true, false)),
      (String ((Ascii (false, false, true, false, false, true, true, false)),
      (String ((Ascii (true, false, true, false, false, true, true, false)),
      (String ((Ascii (false, true, true, true, false, true, true, false)),
      (String ((Ascii (false, false, true, false, false, true, true, false)),
      (String ((Ascii (true, false, false, false, false, true, true, false)),
      (String ((Ascii (true, true, false, false, false, false, true, false)),
      (String ((Ascii (true, true, true, true, false, true, true, false)),
      (String ((Ascii (true, false, true, false, true, true, true, false)),
      (String ((Ascii (false, true, true, true, false, true, true, false)),
      (String ((Ascii (false, false, true, false, true, true, true, false)),
      EmptyString)))))))))))))))))))))))))))))))))))))))))))))))); s_flag =
      UnequalAddendaCounts; s_occ = (S O) }, (Chk d.f_eac))) :: ((Chk
      d.f_amount) :: ((Skip (always, { s_func = (String ((Ascii (false, true,
      true, false, false, false, true, false)), (String ((Ascii (true, false,
      false, true, false, true, true, false)), (String ((Ascii (false, false,
      true, true, false, true, true, false)), (String ((Ascii (true, false,
      true, false, false, true, true, false)), (String ((Ascii (false, true,
      true, true, false, true, false, false)), (String ((Ascii (false, true,
      true, false, true, false, true, false)), (String ((Ascii (true, false,
      false, false, false, true, true, false)), (String ((Ascii (false,
      false, true, true, false, true, true, false)), (String ((Ascii (true,
      false, false, true, false, true, true, false)), (String ((Ascii (false,
      false, true, false, false, true, true, false)), (String ((Ascii (true,
      false, false, false, false, true, true, false)), (String ((Ascii
      (false, false, true, false, true, true, true, false)), (String ((Ascii
      (true, false, true, false, false, true, true, false)), (String ((Ascii
      (true, true, true, false, true, false, true, false)), (String ((Ascii
      (true, false, false, true, false, true, true, false)), (String ((Ascii
      (false, false, true, false, true, true, true, false)), (String ((Ascii
      (false, false, false, true, false, true, true, false)),
      EmptyString)))))))))))))))))))))))))))))))))); s_flag =
      AllowUnorderedBatchNumbers; s_occ = (S O) }, (Skip (d.f_live,
      { s_func = (String ((Ascii (false, true, true, false, false, false,
      true, false)), (String ((Ascii (true, false, false, true, false, true,
      true, false)), (String ((Ascii (false, false, true, true, false, true,
      true, false)), (String ((Ascii (true, false, true, false, false, true,
      true, false)), (String ((Ascii (false, true, true, true, false, true,
      false, false)), (String ((Ascii (true, false, false, true, false, true,
      true, false)), (String ((Ascii (true, true, false, false, true, true,
      true, false)), (String ((Ascii (true, true, false, false, true, false,
      true, false)), (String ((Ascii (true, false, true, false, false, true,
      true, false)), (String ((Ascii (true, false, false, false, true, true,
      true, false)), (String ((Ascii (true, false, true, false, true, true,
      true, false)), (String ((Ascii (true, false, true, false, false, true,
      true, false)), (String ((Ascii (false, true, true, true, false, true,
      true, false)), (String ((Ascii (true, true, false, false, false, true,
      true, false)), (String ((Ascii (true, false, true, false, false, true,
      true, false)), (String ((Ascii (true, false, false, false, false,
      false, true, false)), (String ((Ascii (true, true, false, false, true,
      true, true, false)), (String ((Ascii (true, true, false, false, false,
      true, true, false)), (String ((Ascii (true, false, true, false, false,
      true, true, false)), (String ((Ascii (false, true, true, true, false,
      true, true, false)), (String ((Ascii (false, false, true, false, false,
      true, true, false)), (String ((Ascii (true, false, false, true, false,
      true, true, false)), (String ((Ascii (false, true, true, true, false,
      true, true, false)), (String ((Ascii (true, true, true, false, false,
      true, true, false)),
      EmptyString)))))))))))))))))))))))))))))))))))))))))))))))); s_flag =
      CustomTraceNumbers; s_occ = (S O) }, (Chk d.f_ascending))))) :: ((Chk
      d.f_hash) :: [])))))))))))

(** val s_final : sig0 -> st -> st **)

let s_final d s =
  if d.s_has_cur s then d.s_flush_cur s else s

(** val sf_live : sig0 -> st -> bool **)

let sf_live d s =
  d.f_live (d.s_file s)

(** val t_final : sig0 -> st vt **)

let t_final d =
  On ((s_final d),
    (seq ((Ite (d.s_header_unset, (Skip ((sf_live d), { s_func = (String
      ((Ascii (false, true, false, false, true, false, true, false)), (String
      ((Ascii (true, false, true, false, false, true, true, false)), (String
      ((Ascii (true, false, false, false, false, true, true, false)), (String
      ((Ascii (false, false, true, false, false, true, true, false)), (String
      ((Ascii (true, false, true, false, false, true, true, false)), (String
      ((Ascii (false, true, false, false, true, true, true, false)), (String
      ((Ascii (false, true, true, true, false, true, false, false)), (String
      ((Ascii (false, true, false, false, true, false, true, false)), (String
      ((Ascii (true, false, true, false, false, true, true, false)), (String
      ((Ascii (true, false, false, false, false, true, true, false)), (String
      ((Ascii (false, false, true, false, false, true, true, false)),
      EmptyString)))))))))))))))))))))); s_flag = AllowMissingFileHeader;
      s_occ = (S O) }, (Chk (fun _ -> false)))), Pass)) :: ((Ite ((fun s ->
      d.f_isADV (d.s_file s)), (Skip ((sf_live d), { s_func = (String ((Ascii
      (false, true, false, false, true, false, true, false)), (String ((Ascii
      (true, false, true, false, false, true, true, false)), (String ((Ascii
      (true, false, false, false, false, true, true, false)), (String ((Ascii
      (false, false, true, false, false, true, true, false)), (String ((Ascii
      (true, false, true, false, false, true, true, false)), (String ((Ascii
      (false, true, false, false, true, true, true, false)), (String ((Ascii
      (false, true, true, true, false, true, false, false)), (String ((Ascii
      (false, true, false, false, true, false, true, false)), (String ((Ascii
      (true, false, true, false, false, true, true, false)), (String ((Ascii
      (true, false, false, false, false, true, true, false)), (String ((Ascii
      (false, false, true, false, false, true, true, false)),
      EmptyString)))))))))))))))))))))); s_flag = AllowMissingFileControl;
      s_occ = (S (S O)) }, (Chk (fun s -> negb (d.s_advcontrol_unset s))))),
      (Skip ((sf_live d), { s_func = (String ((Ascii (false, true, false,
      false, true, false, true, false)), (String ((Ascii (true, false, true,
      false, false, true, true, false)), (String ((Ascii (true, false, false,
      false, false, true, true, false)), (String ((Ascii (false, false, true,
      false, false, true, true, false)), (String ((Ascii (true, false, true,
      false, false, true, true, false)), (String ((Ascii (false, true, false,
      false, true, true, true, false)), (String ((Ascii (false, true, true,
      true, false, true, false, false)), (String ((Ascii (false, true, false,
      false, true, false, true, false)), (String ((Ascii (true, false, true,
      false, false, true, true, false)), (String ((Ascii (true, false, false,
      false, false, true, true, false)), (String ((Ascii (false, false, true,
      false, false, true, true, false)), EmptyString))))))))))))))))))))));
      s_flag = AllowMissingFileControl; s_occ = (S O) }, (Chk (fun s ->
      negb (d.s_control_unset s))))))) :: ((On (d.s_file,
      (t_File_ValidateWith d))) :: [])))))

(** val model_clauses_of : sig0 -> clause list **)

let model_clauses_of d =
  [] :: (app (clauses (t_final d) [])
          (app (clauses (t_FileHeader d d.fh_live) [])
            (app (clauses (t_Entry d) [])
              (app (clauses (t_Batch_Validate d) [])
                (app (clauses (t_IATBatch_Validate d) [])
                  (flat_map (fun k -> clauses (t_leaf d k) []) all_kinds))))))

(** val base_sig : bool -> rectype -> bool -> sig0 **)

let base_sig origin_ok rt hdr_unset =
  { r_live = (fun _ -> true); r_plain = (fun _ _ -> true); r_guarded =
    (fun _ _ -> true); fh_live = (fun _ -> true); fh_incl = (fun _ -> true);
    fh_basic = (fun _ -> true); fh_origin = (fun _ -> origin_ok); fh_dest =
    (fun _ -> true); fh_special = (fun _ -> true); e_live = (fun _ -> true);
    e_basic = (fun _ -> true); e_special = (fun _ -> true); e_checkdigit =
    (fun _ -> true); e_addenda = (fun _ _ -> []); b_live = (fun _ -> true);
    b_isADV = (fun _ -> false); b_isCTX = (fun _ -> false); b_header =
    (fun _ -> Obj.magic ()); b_control = (fun _ -> Obj.magic ());
    b_advcontrol = (fun _ -> Obj.magic ()); b_entries = (fun _ -> []);
    b_adventries = (fun _ -> []); adv_addenda99 = (fun _ -> []);
    b_has_entries = (fun _ -> true); b_scc_eq = (fun _ -> true); b_cid_eq =
    (fun _ -> true); b_odfi_eq = (fun _ -> true); b_num_eq = (fun _ -> true);
    b_adv_scc_eq = (fun _ -> true); b_adv_odfi_eq = (fun _ -> true);
    b_adv_num_eq = (fun _ -> true); b_count_eq = (fun _ -> true);
    b_adv_count_eq = (fun _ -> true); b_ascending = (fun _ -> true);
    b_amount = (fun _ -> true); b_hash = (fun _ -> true); b_dne = (fun _ ->
    true); b_trace_odfi = (fun _ -> true); b_addenda_seq = (fun _ -> true);
    b_category = (fun _ -> true); b_sec_checks = (fun _ -> true);
    be_ctx_count = (fun _ -> true); be_noc = (fun _ -> false); be_return =
    (fun _ -> false); be_prenote = (fun _ -> false); be_amount_zero =
    (fun _ -> false); be_zero_remittance = (fun _ -> true); ib_live =
    (fun _ -> true); ib_header = (fun _ -> Obj.magic ()); ib_control =
    (fun _ -> Obj.magic ()); ib_entries = (fun _ -> []); ie_addenda =
    (fun _ _ -> []); ie_incl = (fun _ -> true); ib_has_entries = (fun _ ->
    true); ib_scc_eq = (fun _ -> true); ib_odfi_eq = (fun _ -> true);
    ib_num_eq = (fun _ -> true); ib_cid_special = (fun _ -> true);
    ib_count_eq = (fun _ -> true); ib_ascending = (fun _ -> true);
    ib_amount = (fun _ -> true); ib_hash = (fun _ -> true); ib_trace_odfi =
    (fun _ -> true); ib_addenda_seq = (fun _ -> true); ib_category =
    (fun _ -> true); ib_rules = (fun _ -> true); f_live = (fun _ -> true);
    f_isADV = (fun _ -> false); f_header = (fun _ -> Obj.magic ());
    f_batches = (fun _ -> []); f_control = (fun _ -> Obj.magic ());
    f_advcontrol = (fun _ -> Obj.magic ()); f_batchcount = (fun _ -> true);
    f_adv_batchcount = (fun _ -> true); f_eac = (fun _ -> true); f_adv_eac =
    (fun _ -> true); f_amount = (fun _ -> true); f_adv_amount = (fun _ ->
    true); f_ascending = (fun _ -> true); f_hash = (fun _ -> true);
    f_adv_hash = (fun _ -> true); f_has_batches = (fun _ -> true);
    rectype_of = (fun _ -> rt); s_file = (fun _ -> Obj.magic ());
    s_header_unset = (fun _ -> hdr_unset); s_control_unset = (fun _ ->
    false); s_advcontrol_unset = (fun _ -> false); s_has_cur = (fun _ ->
    false); s_cur_empty = (fun _ -> false); s_cur_isADV = (fun _ -> false);
    s_has_iat = (fun _ -> false); s_flush_cur = (fun s -> s);
    l_is_iat_header = (fun _ -> false); parse_fh = (fun _ _ -> Obj.magic ());
    s_set_header = (fun s _ -> s); parse_bh = (fun _ _ -> Obj.magic ());
    s_new_batch = (fun s _ -> Some s); parse_iat_bh = (fun _ _ ->
    Obj.magic ()); s_new_iat = (fun s _ -> s); parse_entry = (fun _ _ ->
    Obj.magic ()); s_add_entry = (fun s _ -> s); parse_adventry = (fun _ _ ->
    Obj.magic ()); s_add_adventry = (fun s _ -> s); parse_iatentry =
    (fun _ _ -> Obj.magic ()); s_add_iatentry = (fun s _ -> s);
    parse_addenda = (fun _ _ -> None); parse_bc = (fun s _ -> s);
    s_cur_control = (fun _ -> Obj.magic ()); s_cur_batch = (fun _ ->
    Obj.magic ()); s_close_batch = (fun s -> s); s_iat_control = (fun _ ->
    Obj.magic ()); s_iat_batch = (fun _ -> Obj.magic ()); s_close_iat =
    (fun s -> s); parse_fc = (fun s _ -> s) }

(** val unit_sig : sig0 **)

let unit_sig =
  base_sig true RPadding false

(** val model_family : clause list **)

let model_family =
  model_clauses_of unit_sig

(** val model_family_idx : nat list list **)

let model_family_idx =
  map (map flag_idx) model_family

(** val flag_of_idx : nat -> flag option **)

let flag_of_idx n =
  nth_error all_flags n

(** val flags_of_idx : nat list -> flag list **)

let flags_of_idx l =
  flat_map (fun n -> match flag_of_idx n with
                     | Some f -> f :: []
                     | None -> []) l

(** val model_predict : bool list -> nat list -> bool **)

let model_predict obs on =
  predict_l model_family obs (flags_of_idx on)


(** val negb : bool -> bool **)

let negb = function
| true -> false
| false -> true

type nat =
| O
| S of nat

(** val fst : ('a1 * 'a2) -> 'a1 **)

let fst = function
| (x, _) -> x

(** val snd : ('a1 * 'a2) -> 'a2 **)

let snd = function
| (_, y) -> y

(** val length : 'a1 list -> nat **)

let rec length = function
| [] -> O
| _ :: l' -> S (length l')

(** val app : 'a1 list -> 'a1 list -> 'a1 list **)

let rec app l m =
  match l with
  | [] -> m
  | a :: l1 -> a :: (app l1 m)

type comparison =
| Eq
| Lt
| Gt

(** val compOpp : comparison -> comparison **)

let compOpp = function
| Eq -> Eq
| Lt -> Gt
| Gt -> Lt

(** val map : ('a1 -> 'a2) -> 'a1 list -> 'a2 list **)

let rec map f = function
| [] -> []
| a :: t -> (f a) :: (map f t)

(** val fold_left : ('a1 -> 'a2 -> 'a1) -> 'a2 list -> 'a1 -> 'a1 **)

let rec fold_left f l a0 =
  match l with
  | [] -> a0
  | b :: t -> fold_left f t (f a0 b)

(** val fold_right : ('a2 -> 'a1 -> 'a1) -> 'a1 -> 'a2 list -> 'a1 **)

let rec fold_right f a0 = function
| [] -> a0
| b :: t -> f b (fold_right f a0 t)

type positive =
| XI of positive
| XO of positive
| XH

type n =
| N0
| Npos of positive

type z =
| Z0
| Zpos of positive
| Zneg of positive

module Pos =
 struct
  type mask =
  | IsNul
  | IsPos of positive
  | IsNeg
 end

module Coq_Pos =
 struct
  (** val succ : positive -> positive **)

  let rec succ = function
  | XI p -> XO (succ p)
  | XO p -> XI p
  | XH -> XO XH

  (** val add : positive -> positive -> positive **)

  let rec add x y =
    match x with
    | XI p ->
      (match y with
       | XI q -> XO (add_carry p q)
       | XO q -> XI (add p q)
       | XH -> XO (succ p))
    | XO p ->
      (match y with
       | XI q -> XI (add p q)
       | XO q -> XO (add p q)
       | XH -> XI p)
    | XH -> (match y with
             | XI q -> XO (succ q)
             | XO q -> XI q
             | XH -> XO XH)

  (** val add_carry : positive -> positive -> positive **)

  and add_carry x y =
    match x with
    | XI p ->
      (match y with
       | XI q -> XI (add_carry p q)
       | XO q -> XO (add_carry p q)
       | XH -> XI (succ p))
    | XO p ->
      (match y with
       | XI q -> XO (add_carry p q)
       | XO q -> XI (add p q)
       | XH -> XO (succ p))
    | XH ->
      (match y with
       | XI q -> XI (succ q)
       | XO q -> XO (succ q)
       | XH -> XI XH)

  (** val pred_double : positive -> positive **)

  let rec pred_double = function
  | XI p -> XI (XO p)
  | XO p -> XI (pred_double p)
  | XH -> XH

  type mask = Pos.mask =
  | IsNul
  | IsPos of positive
  | IsNeg

  (** val succ_double_mask : mask -> mask **)

  let succ_double_mask = function
  | IsNul -> IsPos XH
  | IsPos p -> IsPos (XI p)
  | IsNeg -> IsNeg

  (** val double_mask : mask -> mask **)

  let double_mask = function
  | IsPos p -> IsPos (XO p)
  | x0 -> x0

  (** val double_pred_mask : positive -> mask **)

  let double_pred_mask = function
  | XI p -> IsPos (XO (XO p))
  | XO p -> IsPos (XO (pred_double p))
  | XH -> IsNul

  (** val sub_mask : positive -> positive -> mask **)

  let rec sub_mask x y =
    match x with
    | XI p ->
      (match y with
       | XI q -> double_mask (sub_mask p q)
       | XO q -> succ_double_mask (sub_mask p q)
       | XH -> IsPos (XO p))
    | XO p ->
      (match y with
       | XI q -> succ_double_mask (sub_mask_carry p q)
       | XO q -> double_mask (sub_mask p q)
       | XH -> IsPos (pred_double p))
    | XH -> (match y with
             | XH -> IsNul
             | _ -> IsNeg)

  (** val sub_mask_carry : positive -> positive -> mask **)

  and sub_mask_carry x y =
    match x with
    | XI p ->
      (match y with
       | XI q -> succ_double_mask (sub_mask_carry p q)
       | XO q -> double_mask (sub_mask p q)
       | XH -> IsPos (pred_double p))
    | XO p ->
      (match y with
       | XI q -> double_mask (sub_mask_carry p q)
       | XO q -> succ_double_mask (sub_mask_carry p q)
       | XH -> double_pred_mask p)
    | XH -> IsNeg

  (** val compare_cont : comparison -> positive -> positive -> comparison **)

  let rec compare_cont r x y =
    match x with
    | XI p ->
      (match y with
       | XI q -> compare_cont r p q
       | XO q -> compare_cont Gt p q
       | XH -> Gt)
    | XO p ->
      (match y with
       | XI q -> compare_cont Lt p q
       | XO q -> compare_cont r p q
       | XH -> Gt)
    | XH -> (match y with
             | XH -> r
             | _ -> Lt)

  (** val compare : positive -> positive -> comparison **)

  let compare =
    compare_cont Eq

  (** val eqb : positive -> positive -> bool **)

  let rec eqb p q =
    match p with
    | XI p0 -> (match q with
                | XI q0 -> eqb p0 q0
                | _ -> false)
    | XO p0 -> (match q with
                | XO q0 -> eqb p0 q0
                | _ -> false)
    | XH -> (match q with
             | XH -> true
             | _ -> false)
 end

module N =
 struct
  (** val sub : n -> n -> n **)

  let sub n0 m =
    match n0 with
    | N0 -> N0
    | Npos n' ->
      (match m with
       | N0 -> n0
       | Npos m' ->
         (match Coq_Pos.sub_mask n' m' with
          | Coq_Pos.IsPos p -> Npos p
          | _ -> N0))

  (** val compare : n -> n -> comparison **)

  let compare n0 m =
    match n0 with
    | N0 -> (match m with
             | N0 -> Eq
             | Npos _ -> Lt)
    | Npos n' -> (match m with
                  | N0 -> Gt
                  | Npos m' -> Coq_Pos.compare n' m')

  (** val eqb : n -> n -> bool **)

  let eqb n0 m =
    match n0 with
    | N0 -> (match m with
             | N0 -> true
             | Npos _ -> false)
    | Npos p -> (match m with
                 | N0 -> false
                 | Npos q -> Coq_Pos.eqb p q)

  (** val leb : n -> n -> bool **)

  let leb x y =
    match compare x y with
    | Gt -> false
    | _ -> true
 end

module Z =
 struct
  (** val double : z -> z **)

  let double = function
  | Z0 -> Z0
  | Zpos p -> Zpos (XO p)
  | Zneg p -> Zneg (XO p)

  (** val succ_double : z -> z **)

  let succ_double = function
  | Z0 -> Zpos XH
  | Zpos p -> Zpos (XI p)
  | Zneg p -> Zneg (Coq_Pos.pred_double p)

  (** val pred_double : z -> z **)

  let pred_double = function
  | Z0 -> Zneg XH
  | Zpos p -> Zpos (Coq_Pos.pred_double p)
  | Zneg p -> Zneg (XI p)

  (** val pos_sub : positive -> positive -> z **)

  let rec pos_sub x y =
    match x with
    | XI p ->
      (match y with
       | XI q -> double (pos_sub p q)
       | XO q -> succ_double (pos_sub p q)
       | XH -> Zpos (XO p))
    | XO p ->
      (match y with
       | XI q -> pred_double (pos_sub p q)
       | XO q -> double (pos_sub p q)
       | XH -> Zpos (Coq_Pos.pred_double p))
    | XH ->
      (match y with
       | XI q -> Zneg (XO q)
       | XO q -> Zneg (Coq_Pos.pred_double q)
       | XH -> Z0)

  (** val add : z -> z -> z **)

  let add x y =
    match x with
    | Z0 -> y
    | Zpos x' ->
      (match y with
       | Z0 -> x
       | Zpos y' -> Zpos (Coq_Pos.add x' y')
       | Zneg y' -> pos_sub x' y')
    | Zneg x' ->
      (match y with
       | Z0 -> x
       | Zpos y' -> pos_sub y' x'
       | Zneg y' -> Zneg (Coq_Pos.add x' y'))

  (** val compare : z -> z -> comparison **)

  let compare x y =
    match x with
    | Z0 -> (match y with
             | Z0 -> Eq
             | Zpos _ -> Lt
             | Zneg _ -> Gt)
    | Zpos x' -> (match y with
                  | Zpos y' -> Coq_Pos.compare x' y'
                  | _ -> Gt)
    | Zneg x' ->
      (match y with
       | Zneg y' -> compOpp (Coq_Pos.compare x' y')
       | _ -> Lt)

  (** val leb : z -> z -> bool **)

  let leb x y =
    match compare x y with
    | Gt -> false
    | _ -> true

  (** val ltb : z -> z -> bool **)

  let ltb x y =
    match compare x y with
    | Lt -> true
    | _ -> false

  (** val eqb : z -> z -> bool **)

  let eqb x y =
    match x with
    | Z0 -> (match y with
             | Z0 -> true
             | _ -> false)
    | Zpos p -> (match y with
                 | Zpos q -> Coq_Pos.eqb p q
                 | _ -> false)
    | Zneg p -> (match y with
                 | Zneg q -> Coq_Pos.eqb p q
                 | _ -> false)
 end

type bytes = n list

(** val bytes_eqb : bytes -> bytes -> bool **)

let rec bytes_eqb a b =
  match a with
  | [] -> (match b with
           | [] -> true
           | _ :: _ -> false)
  | x :: a' ->
    (match b with
     | [] -> false
     | y :: b' -> (&&) (N.eqb x y) (bytes_eqb a' b'))

(** val bcmp : bytes -> bytes -> comparison **)

let rec bcmp a b =
  match a with
  | [] -> (match b with
           | [] -> Eq
           | _ :: _ -> Lt)
  | x :: a' ->
    (match b with
     | [] -> Gt
     | y :: b' -> (match N.compare x y with
                   | Eq -> bcmp a' b'
                   | x0 -> x0))

(** val is_eq : comparison -> bool **)

let is_eq = function
| Eq -> true
| _ -> false

type entry = { e_trace : bytes; e_amount : z; e_addenda : z; e_id : n }

type header = { h_scc : z; h_name : bytes; h_cid : bytes; h_sec : bytes;
                h_desc : bytes; h_eed : bytes; h_odfi : bytes; h_rest : 
                n }

(** val upper : n -> n **)

let upper b =
  if (&&) (N.leb (Npos (XI (XO (XO (XO (XO (XI XH))))))) b)
       (N.leb b (Npos (XO (XI (XO (XI (XI (XI XH))))))))
  then N.sub b (Npos (XO (XO (XO (XO (XO XH))))))
  else b

(** val fold_eq : bytes -> bytes -> bool **)

let fold_eq a b =
  bytes_eqb (map upper a) (map upper b)

(** val header_equal : header -> header -> bool **)

let header_equal a b =
  if negb (Z.eqb a.h_scc b.h_scc)
  then false
  else if negb (fold_eq a.h_name b.h_name)
       then false
       else if negb (bytes_eqb a.h_cid b.h_cid)
            then false
            else if negb (bytes_eqb a.h_sec b.h_sec)
                 then false
                 else if negb (bytes_eqb a.h_desc b.h_desc)
                      then false
                      else if negb (bytes_eqb a.h_eed b.h_eed)
                           then false
                           else if negb (bytes_eqb a.h_odfi b.h_odfi)
                                then false
                                else true

type ibatch = { ib_header : header; ib_entries : entry list }

type ifile = { if_origin : bytes; if_dest : bytes; if_hid : n;
               if_batches : ibatch list }

type tmap = (bytes * entry) list

(** val tm_contains : bytes -> tmap -> bool **)

let rec tm_contains k = function
| [] -> false
| p :: r -> let (k', _) = p in (||) (is_eq (bcmp k k')) (tm_contains k r)

(** val tm_set : bytes -> entry -> tmap -> tmap **)

let rec tm_set k v m = match m with
| [] -> (k, v) :: []
| p :: r ->
  let (k', v') = p in
  (match bcmp k k' with
   | Eq -> (k, v) :: r
   | Lt -> (k, v) :: m
   | Gt -> (k', v') :: (tm_set k v r))

type obatch = { ob_header : header; ob_entries : tmap }

type ofile = { of_origin : bytes; of_dest : bytes; of_hid : n;
               of_batches : obatch list }

(** val place : header -> entry -> obatch list -> obatch list **)

let rec place h e = function
| [] -> { ob_header = h; ob_entries = (tm_set e.e_trace e []) } :: []
| b :: r ->
  if (&&) (header_equal b.ob_header h)
       (negb (tm_contains e.e_trace b.ob_entries))
  then { ob_header = b.ob_header; ob_entries =
         (tm_set e.e_trace e b.ob_entries) } :: r
  else b :: (place h e r)

(** val add_batch : obatch list -> ibatch -> obatch list **)

let add_batch bs ib =
  fold_left (fun acc e -> place ib.ib_header e acc) ib.ib_entries bs

(** val add_to : ofile -> ifile -> ofile **)

let add_to o f =
  { of_origin = o.of_origin; of_dest = o.of_dest; of_hid = o.of_hid;
    of_batches = (fold_left add_batch f.if_batches o.of_batches) }

(** val new_ofile : ifile -> ofile **)

let new_ofile f =
  { of_origin = f.if_origin; of_dest = f.if_dest; of_hid = f.if_hid;
    of_batches = [] }

(** val same_route : ofile -> ifile -> bool **)

let same_route o f =
  (&&) (bytes_eqb f.if_origin o.of_origin) (bytes_eqb f.if_dest o.of_dest)

(** val add_file : ofile list -> ifile -> ofile list **)

let rec add_file st f =
  match st with
  | [] -> (add_to (new_ofile f) f) :: []
  | o :: r ->
    if same_route o f then (add_to o f) :: r else o :: (add_file r f)

(** val build_state : ifile list -> ofile list **)

let build_state fs = match fs with
| [] -> []
| f0 :: _ -> fold_left add_file fs ((new_ofile f0) :: [])

type rbatch = { rb_number : z; rb_header : header; rb_entries : entry list }

type rfile = { rf_origin : bytes; rf_dest : bytes; rf_hid : n;
               rf_batches : rbatch list }

type conds = { maxLines : z; maxDollar : z }

(** val nacha_limit : z **)

let nacha_limit =
  Zpos (XI (XI (XI (XI (XI (XI (XI (XI (XI (XI (XI (XI (XO (XO (XO (XO (XI
    (XO (XI (XO (XO (XI (XO (XI (XO (XO (XI (XO (XI (XO (XI (XI (XO (XO (XO
    (XI (XO (XI (XI XH)))))))))))))))))))))))))))))))))))))))

(** val effective_dollar : conds -> z **)

let effective_dollar c =
  if (||) (Z.eqb c.maxDollar Z0) (Z.ltb nacha_limit c.maxDollar)
  then nacha_limit
  else c.maxDollar

type cstate = { c_out : rfile list; c_file : rbatch list;
                c_bent : entry list; c_L : z; c_D : z; c_bn : z }

(** val renumber : z -> rbatch list -> rbatch list **)

let rec renumber seq = function
| [] -> []
| b :: r ->
  (if Z.leb b.rb_number (Zpos XH)
   then { rb_number = seq; rb_header = b.rb_header; rb_entries =
          b.rb_entries }
   else b) :: (renumber (Z.add seq (Zpos XH)) r)

(** val create_file : ofile -> rbatch list -> rfile **)

let create_file o bs =
  { rf_origin = o.of_origin; rf_dest = o.of_dest; rf_hid = o.of_hid;
    rf_batches = (renumber (Zpos XH) bs) }

(** val close_batch : header -> cstate -> rbatch list **)

let close_batch hdr s =
  match s.c_bent with
  | [] -> s.c_file
  | _ :: _ ->
    app s.c_file ({ rb_number = s.c_bn; rb_header = hdr; rb_entries =
      s.c_bent } :: [])

(** val close_file : ofile -> rbatch list -> rfile list -> rfile list **)

let close_file o bs out =
  match bs with
  | [] -> out
  | _ :: _ -> app out ((create_file o bs) :: [])

(** val exceeds : conds -> z -> z -> z -> entry -> bool **)

let exceeds c m l d e =
  (||)
    ((&&) (Z.ltb Z0 c.maxLines)
      (Z.ltb c.maxLines (Z.add l (Z.add (Zpos XH) e.e_addenda))))
    ((&&) (Z.ltb Z0 m) (Z.ltb m (Z.add d e.e_amount)))

(** val step_entry :
    conds -> z -> ofile -> header -> cstate -> entry -> cstate **)

let step_entry c m o hdr s e =
  if exceeds c m s.c_L s.c_D e
  then { c_out = (close_file o (close_batch hdr s) s.c_out); c_file = [];
         c_bent = (e :: []); c_L =
         (Z.add (Zpos (XO (XO XH))) (Z.add (Zpos XH) e.e_addenda)); c_D =
         (Z.add Z0 e.e_amount); c_bn = (Z.add s.c_bn (Zpos XH)) }
  else { c_out = s.c_out; c_file = s.c_file; c_bent =
         (app s.c_bent (e :: [])); c_L =
         (Z.add s.c_L (Z.add (Zpos XH) e.e_addenda)); c_D =
         (Z.add s.c_D e.e_amount); c_bn = s.c_bn }

(** val step_batch : conds -> z -> ofile -> cstate -> obatch -> cstate **)

let step_batch c m o s b =
  let s1 = { c_out = s.c_out; c_file = s.c_file; c_bent = []; c_L =
    (Z.add s.c_L (Zpos (XO XH))); c_D = s.c_D; c_bn =
    (Z.add s.c_bn (Zpos XH)) }
  in
  let s2 = fold_left (step_entry c m o b.ob_header) (map snd b.ob_entries) s1
  in
  { c_out = s2.c_out; c_file = (close_batch b.ob_header s2); c_bent = [];
  c_L = s2.c_L; c_D = s2.c_D; c_bn = s2.c_bn }

(** val step_file :
    conds -> z -> (rfile list * z) -> ofile -> rfile list * z **)

let step_file c m acc o =
  let s0 = { c_out = (fst acc); c_file = []; c_bent = []; c_L = (Zpos (XO
    XH)); c_D = Z0; c_bn = (snd acc) }
  in
  let s1 = fold_left (step_batch c m o) o.of_batches s0 in
  ((close_file o s1.c_file s1.c_out), s1.c_bn)

(** val convert : conds -> ofile list -> rfile list **)

let convert c st =
  fst (fold_left (step_file c (effective_dollar c)) st ([], Z0))

(** val merge_files : ifile list -> conds -> rfile list **)

let merge_files fs c =
  convert c (build_state fs)

(** val entry_lines : entry -> z **)

let entry_lines e =
  Z.add (Zpos XH) e.e_addenda

(** val zsum : z list -> z **)

let zsum l =
  fold_right Z.add Z0 l

(** val batch_lines : rbatch -> z **)

let batch_lines b =
  Z.add (Zpos (XO XH)) (zsum (map entry_lines b.rb_entries))

(** val batch_amount : rbatch -> z **)

let batch_amount b =
  zsum (map (fun e -> e.e_amount) b.rb_entries)

(** val batches_lines : rbatch list -> z **)

let batches_lines bs =
  zsum (map batch_lines bs)

(** val batches_amount : rbatch list -> z **)

let batches_amount bs =
  zsum (map batch_amount bs)

(** val file_lines : rfile -> z **)

let file_lines g =
  Z.add (Zpos (XO XH)) (batches_lines g.rf_batches)

(** val file_amount : rfile -> z **)

let file_amount g =
  batches_amount g.rf_batches


type nat =
| O
| S of nat

(** val length : 'a1 list -> nat **)

let rec length = function
| [] -> O
| _ :: l' -> S (length l')

(** val map : ('a1 -> 'a2) -> 'a1 list -> 'a2 list **)

let rec map f = function
| [] -> []
| a :: t -> (f a) :: (map f t)

(** val fold_left : ('a1 -> 'a2 -> 'a1) -> 'a2 list -> 'a1 -> 'a1 **)

let rec fold_left f l a0 =
  match l with
  | [] -> a0
  | b :: t -> fold_left f t (f a0 b)

(** val existsb : ('a1 -> bool) -> 'a1 list -> bool **)

let rec existsb f = function
| [] -> false
| a :: l0 -> (||) (f a) (existsb f l0)

type positive =
| XI of positive
| XO of positive
| XH

type n =
| N0
| Npos of positive

type z =
| Z0
| Zpos of positive
| Zneg of positive

module Pos =
 struct
  (** val succ : positive -> positive **)

  let rec succ = function
  | XI p -> XO (succ p)
  | XO p -> XI p
  | XH -> XO XH

  (** val add : positive -> positive -> positive **)

  let rec add x y =
    match x with
    | XI p ->
      (match y with
       | XI q -> XO (add_carry p q)
       | XO q -> XI (add p q)
       | XH -> XO (succ p))
    | XO p ->
      (match y with
       | XI q -> XI (add p q)
       | XO q -> XO (add p q)
       | XH -> XI p)
    | XH -> (match y with
             | XI q -> XO (succ q)
             | XO q -> XI q
             | XH -> XO XH)

  (** val add_carry : positive -> positive -> positive **)

  and add_carry x y =
    match x with
    | XI p ->
      (match y with
       | XI q -> XI (add_carry p q)
       | XO q -> XO (add_carry p q)
       | XH -> XI (succ p))
    | XO p ->
      (match y with
       | XI q -> XO (add_carry p q)
       | XO q -> XI (add p q)
       | XH -> XO (succ p))
    | XH ->
      (match y with
       | XI q -> XI (succ q)
       | XO q -> XO (succ q)
       | XH -> XI XH)

  (** val pred_double : positive -> positive **)

  let rec pred_double = function
  | XI p -> XI (XO p)
  | XO p -> XI (pred_double p)
  | XH -> XH

  (** val eqb : positive -> positive -> bool **)

  let rec eqb p q =
    match p with
    | XI p0 -> (match q with
                | XI q0 -> eqb p0 q0
                | _ -> false)
    | XO p0 -> (match q with
                | XO q0 -> eqb p0 q0
                | _ -> false)
    | XH -> (match q with
             | XH -> true
             | _ -> false)
 end

module Z =
 struct
  (** val double : z -> z **)

  let double = function
  | Z0 -> Z0
  | Zpos p -> Zpos (XO p)
  | Zneg p -> Zneg (XO p)

  (** val succ_double : z -> z **)

  let succ_double = function
  | Z0 -> Zpos XH
  | Zpos p -> Zpos (XI p)
  | Zneg p -> Zneg (Pos.pred_double p)

  (** val pred_double : z -> z **)

  let pred_double = function
  | Z0 -> Zneg XH
  | Zpos p -> Zpos (Pos.pred_double p)
  | Zneg p -> Zneg (XI p)

  (** val pos_sub : positive -> positive -> z **)

  let rec pos_sub x y =
    match x with
    | XI p ->
      (match y with
       | XI q -> double (pos_sub p q)
       | XO q -> succ_double (pos_sub p q)
       | XH -> Zpos (XO p))
    | XO p ->
      (match y with
       | XI q -> pred_double (pos_sub p q)
       | XO q -> double (pos_sub p q)
       | XH -> Zpos (Pos.pred_double p))
    | XH ->
      (match y with
       | XI q -> Zneg (XO q)
       | XO q -> Zneg (Pos.pred_double q)
       | XH -> Z0)

  (** val add : z -> z -> z **)

  let add x y =
    match x with
    | Z0 -> y
    | Zpos x' ->
      (match y with
       | Z0 -> x
       | Zpos y' -> Zpos (Pos.add x' y')
       | Zneg y' -> pos_sub x' y')
    | Zneg x' ->
      (match y with
       | Z0 -> x
       | Zpos y' -> pos_sub y' x'
       | Zneg y' -> Zneg (Pos.add x' y'))

  (** val eqb : z -> z -> bool **)

  let eqb x y =
    match x with
    | Z0 -> (match y with
             | Z0 -> true
             | _ -> false)
    | Zpos p -> (match y with
                 | Zpos q -> Pos.eqb p q
                 | _ -> false)
    | Zneg p -> (match y with
                 | Zneg q -> Pos.eqb p q
                 | _ -> false)
 end

type bytes = n list

type target =
| TCredit
| TDebit
| TNone

type seg_arm = { sa_codes : z list; sa_target : target; sa_unknown : bool }

(** val memz : z -> z list -> bool **)

let memz c l =
  existsb (Z.eqb c) l

type entry = { e_code : z; e_amount : z; e_id : n; e_trace : n }

type rflag =
| FCredits
| FDebits
| FNoFlag
| FBothFlags

type rev_arm = { ra_codes : z list; ra_delta : z; ra_flag : rflag;
                 ra_unknown : bool }

type fcond =
| CCredits
| CDebits
| CBoth
| CUnknown

type rev_fixup = { fx_cond : fcond; fx_hdr : z; fx_ctl : z; fx_unknown : bool }

(** val rev_lookup : rev_arm list -> z -> rev_arm option **)

let rec rev_lookup arms c =
  match arms with
  | [] -> None
  | a :: r -> if memz c a.ra_codes then Some a else rev_lookup r c

(** val rev_code : rev_arm list -> z -> z **)

let rev_code arms c =
  match rev_lookup arms c with
  | Some a -> Z.add c a.ra_delta
  | None -> c

(** val flag_credits : rflag -> bool **)

let flag_credits = function
| FCredits -> true
| FBothFlags -> true
| _ -> false

(** val flag_debits : rflag -> bool **)

let flag_debits = function
| FCredits -> false
| FNoFlag -> false
| _ -> true

(** val arm_flags : rev_arm list -> z -> bool * bool **)

let arm_flags arms c =
  match rev_lookup arms c with
  | Some a -> ((flag_credits a.ra_flag), (flag_debits a.ra_flag))
  | None -> (false, false)

(** val fix_fires : bool -> bool -> fcond -> bool **)

let fix_fires hc hd = function
| CCredits -> hc
| CDebits -> hd
| CBoth -> (&&) hc hd
| CUnknown -> false

(** val apply_fixups : rev_fixup list -> bool -> bool -> (z * z) option **)

let apply_fixups fx hc hd =
  fold_left (fun acc x ->
    if fix_fires hc hd x.fx_cond then Some (x.fx_hdr, x.fx_ctl) else acc) fx
    None

type rtables = { rt_arms : rev_arm list; rt_fix : rev_fixup list;
                 rt_desc : bytes; rt_amt : seg_arm list; rt_std : z list;
                 rt_pre : z list }

type rbatch = { rb_scc_h : z; rb_scc_c : z; rb_desc : bytes; rb_date : 
                bytes; rb_debit : z; rb_credit : z; rb_entries : entry list }

type rfile = { rf_date : bytes; rf_time : bytes; rf_batches : rbatch list;
               rf_debit : z; rf_credit : z }

(** val rev_entry : rev_arm list -> entry -> entry **)

let rev_entry arms e =
  { e_code = (rev_code arms e.e_code); e_amount = e.e_amount; e_id = e.e_id;
    e_trace = e.e_trace }

(** val entry_flags : rev_arm list -> entry list -> bool * bool **)

let rec entry_flags arms = function
| [] -> (false, false)
| e :: r ->
  let (c, d) = arm_flags arms e.e_code in
  let (c2, d2) = entry_flags arms r in (((||) c c2), ((||) d d2))

(** val reversal_batch : rtables -> bytes -> rbatch -> rbatch **)

let reversal_batch t d b =
  let es' = map (rev_entry t.rt_arms) b.rb_entries in
  let (hc, hd) = entry_flags t.rt_arms b.rb_entries in
  let (sh, sc) =
    match apply_fixups t.rt_fix hc hd with
    | Some p -> p
    | None -> (b.rb_scc_h, b.rb_scc_c)
  in
  { rb_scc_h = sh; rb_scc_c = sc; rb_desc = t.rt_desc; rb_date = d;
  rb_debit = b.rb_credit; rb_credit = b.rb_debit; rb_entries = es' }

(** val sum_debit : rbatch list -> z **)

let rec sum_debit = function
| [] -> Z0
| b :: r -> Z.add b.rb_debit (sum_debit r)

(** val sum_credit : rbatch list -> z **)

let rec sum_credit = function
| [] -> Z0
| b :: r -> Z.add b.rb_credit (sum_credit r)

type rres =
| ROk of rfile
| RErrNoBatches

(** val reversal_file : rtables -> bytes -> bytes -> rfile -> rres **)

let reversal_file t d t0 f =
  let bs = map (reversal_batch t d) f.rf_batches in
  (match bs with
   | [] -> RErrNoBatches
   | _ :: _ ->
     ROk { rf_date = d; rf_time = t0; rf_batches = bs; rf_debit =
       (sum_debit bs); rf_credit = (sum_credit bs) })

(** val reversal_arms : rev_arm list **)

let reversal_arms =
  { ra_codes = ((Zpos (XO (XI (XI (XO XH))))) :: ((Zpos (XI (XO (XI (XO
    XH))))) :: ((Zpos (XI (XI (XI (XO XH))))) :: ((Zpos (XO (XO (XO (XI
    XH))))) :: ((Zpos (XO (XI (XO (XI (XO XH)))))) :: ((Zpos (XI (XI (XO (XI
    (XO XH)))))) :: ((Zpos (XI (XO (XO (XI (XO XH)))))) :: ((Zpos (XO (XO (XI
    (XI (XO XH)))))) :: ((Zpos (XI (XO (XI (XO (XI XH)))))) :: ((Zpos (XI (XI
    (XO (XO (XI XH)))))) :: ((Zpos (XO (XI (XI (XO (XI XH)))))) :: ((Zpos (XO
    (XO (XO (XO (XO XH)))))) :: ((Zpos (XI (XO (XO (XO (XO XH)))))) :: ((Zpos
    (XI (XI (XI (XI XH))))) :: ((Zpos (XO (XI (XO (XO (XO
    XH)))))) :: []))))))))))))))); ra_delta = (Zpos (XI (XO XH))); ra_flag =
    FDebits; ra_unknown = false } :: ({ ra_codes = ((Zpos (XO (XO (XI (XO (XI
    XH)))))) :: []); ra_delta = (Zpos (XI XH)); ra_flag = FDebits;
    ra_unknown = false } :: ({ ra_codes = ((Zpos (XI (XI (XO (XI
    XH))))) :: ((Zpos (XO (XO (XI (XI XH))))) :: ((Zpos (XO (XI (XO (XI
    XH))))) :: ((Zpos (XI (XO (XI (XI XH))))) :: ((Zpos (XI (XI (XI (XI (XO
    XH)))))) :: ((Zpos (XO (XO (XO (XO (XI XH)))))) :: ((Zpos (XO (XI (XI (XI
    (XO XH)))))) :: ((Zpos (XI (XO (XO (XO (XI XH)))))) :: ((Zpos (XO (XO (XO
    (XI (XI XH)))))) :: ((Zpos (XI (XO (XI (XO (XO XH)))))) :: ((Zpos (XO (XI
    (XI (XO (XO XH)))))) :: ((Zpos (XO (XO (XI (XO (XO XH)))))) :: ((Zpos (XI
    (XI (XI (XO (XO XH)))))) :: []))))))))))))); ra_delta = (Zneg (XI (XO
    XH))); ra_flag = FCredits; ra_unknown = false } :: ({ ra_codes = ((Zpos
    (XI (XI (XI (XO (XI XH)))))) :: []); ra_delta = (Zneg (XI XH)); ra_flag =
    FCredits; ra_unknown = false } :: [])))

(** val reversal_fixups : rev_fixup list **)

let reversal_fixups =
  { fx_cond = CCredits; fx_hdr = (Zpos (XO (XO (XI (XI (XI (XO (XI
    XH)))))))); fx_ctl = (Zpos (XO (XO (XI (XI (XI (XO (XI XH))))))));
    fx_unknown = false } :: ({ fx_cond = CDebits; fx_hdr = (Zpos (XI (XO (XO
    (XO (XO (XI (XI XH)))))))); fx_ctl = (Zpos (XI (XO (XO (XO (XO (XI (XI
    XH)))))))); fx_unknown = false } :: ({ fx_cond = CBoth; fx_hdr = (Zpos
    (XO (XO (XO (XI (XO (XO (XI XH)))))))); fx_ctl = (Zpos (XO (XO (XO (XI
    (XO (XO (XI XH)))))))); fx_unknown = false } :: []))

(** val reversal_description : n list **)

let reversal_description =
  (Npos (XO (XI (XO (XO (XI (XO XH))))))) :: ((Npos (XI (XO (XI (XO (XO (XO
    XH))))))) :: ((Npos (XO (XI (XI (XO (XI (XO XH))))))) :: ((Npos (XI (XO
    (XI (XO (XO (XO XH))))))) :: ((Npos (XO (XI (XO (XO (XI (XO
    XH))))))) :: ((Npos (XI (XI (XO (XO (XI (XO XH))))))) :: ((Npos (XI (XO
    (XO (XO (XO (XO XH))))))) :: ((Npos (XO (XO (XI (XI (XO (XO
    XH))))))) :: [])))))))

(** val rev_amount_arms : seg_arm list **)

let rev_amount_arms =
  { sa_codes = ((Zpos (XO (XI (XI (XO XH))))) :: ((Zpos (XI (XO (XI (XO
    XH))))) :: ((Zpos (XI (XI (XI (XO XH))))) :: ((Zpos (XO (XO (XO (XI
    XH))))) :: ((Zpos (XO (XO (XO (XO (XO XH)))))) :: ((Zpos (XI (XI (XI (XI
    XH))))) :: ((Zpos (XI (XO (XO (XO (XO XH)))))) :: ((Zpos (XO (XI (XO (XO
    (XO XH)))))) :: ((Zpos (XO (XI (XO (XI (XO XH)))))) :: ((Zpos (XI (XO (XO
    (XI (XO XH)))))) :: ((Zpos (XI (XI (XO (XI (XO XH)))))) :: ((Zpos (XO (XO
    (XI (XI (XO XH)))))) :: ((Zpos (XO (XO (XI (XO (XI XH)))))) :: ((Zpos (XI
    (XI (XO (XO (XI XH)))))) :: ((Zpos (XI (XO (XI (XO (XI XH)))))) :: ((Zpos
    (XO (XI (XI (XO (XI XH)))))) :: [])))))))))))))))); sa_target = TCredit;
    sa_unknown = false } :: ({ sa_codes = ((Zpos (XI (XI (XO (XI
    XH))))) :: ((Zpos (XO (XI (XO (XI XH))))) :: ((Zpos (XO (XO (XI (XI
    XH))))) :: ((Zpos (XI (XO (XI (XI XH))))) :: ((Zpos (XI (XO (XI (XO (XO
    XH)))))) :: ((Zpos (XO (XO (XI (XO (XO XH)))))) :: ((Zpos (XO (XI (XI (XO
    (XO XH)))))) :: ((Zpos (XI (XI (XI (XO (XO XH)))))) :: ((Zpos (XI (XI (XI
    (XI (XO XH)))))) :: ((Zpos (XO (XI (XI (XI (XO XH)))))) :: ((Zpos (XO (XO
    (XO (XO (XI XH)))))) :: ((Zpos (XI (XO (XO (XO (XI XH)))))) :: ((Zpos (XI
    (XI (XI (XO (XI XH)))))) :: ((Zpos (XO (XO (XO (XI (XI
    XH)))))) :: [])))))))))))))); sa_target = TDebit; sa_unknown =
    false } :: [])

(** val rev_standard_codes : z list **)

let rev_standard_codes =
  (Zpos (XI (XO (XI (XO XH))))) :: ((Zpos (XO (XI (XI (XO XH))))) :: ((Zpos
    (XI (XI (XI (XO XH))))) :: ((Zpos (XO (XO (XO (XI XH))))) :: ((Zpos (XO
    (XI (XO (XI XH))))) :: ((Zpos (XI (XI (XO (XI XH))))) :: ((Zpos (XO (XO
    (XI (XI XH))))) :: ((Zpos (XI (XO (XI (XI XH))))) :: ((Zpos (XI (XI (XI
    (XI XH))))) :: ((Zpos (XO (XO (XO (XO (XO XH)))))) :: ((Zpos (XI (XO (XO
    (XO (XO XH)))))) :: ((Zpos (XO (XI (XO (XO (XO XH)))))) :: ((Zpos (XO (XO
    (XI (XO (XO XH)))))) :: ((Zpos (XI (XO (XI (XO (XO XH)))))) :: ((Zpos (XO
    (XI (XI (XO (XO XH)))))) :: ((Zpos (XI (XI (XI (XO (XO XH)))))) :: ((Zpos
    (XI (XO (XO (XI (XO XH)))))) :: ((Zpos (XO (XI (XO (XI (XO
    XH)))))) :: ((Zpos (XI (XI (XO (XI (XO XH)))))) :: ((Zpos (XO (XO (XI (XI
    (XO XH)))))) :: ((Zpos (XO (XI (XI (XI (XO XH)))))) :: ((Zpos (XI (XI (XI
    (XI (XO XH)))))) :: ((Zpos (XO (XO (XO (XO (XI XH)))))) :: ((Zpos (XI (XO
    (XO (XO (XI XH)))))) :: ((Zpos (XI (XI (XO (XO (XI XH)))))) :: ((Zpos (XO
    (XO (XI (XO (XI XH)))))) :: ((Zpos (XI (XO (XI (XO (XI XH)))))) :: ((Zpos
    (XO (XI (XI (XO (XI XH)))))) :: ((Zpos (XI (XI (XI (XO (XI
    XH)))))) :: ((Zpos (XO (XO (XO (XI (XI XH)))))) :: ((Zpos (XI (XO (XO (XO
    (XI (XO XH))))))) :: ((Zpos (XO (XI (XO (XO (XI (XO XH))))))) :: ((Zpos
    (XI (XI (XO (XO (XI (XO XH))))))) :: ((Zpos (XO (XO (XI (XO (XI (XO
    XH))))))) :: ((Zpos (XI (XO (XI (XO (XI (XO XH))))))) :: ((Zpos (XO (XI
    (XI (XO (XI (XO XH))))))) :: ((Zpos (XI (XI (XI (XO (XI (XO
    XH))))))) :: ((Zpos (XO (XO (XO (XI (XI (XO
    XH))))))) :: [])))))))))))))))))))))))))))))))))))))

(** val rev_prenote_codes : z list **)

let rev_prenote_codes =
  (Zpos (XI (XI (XI (XO XH))))) :: ((Zpos (XO (XO (XI (XI XH))))) :: ((Zpos
    (XI (XO (XO (XO (XO XH)))))) :: ((Zpos (XO (XI (XI (XO (XO
    XH)))))) :: ((Zpos (XI (XI (XO (XI (XO XH)))))) :: ((Zpos (XO (XO (XO (XO
    (XI XH)))))) :: ((Zpos (XI (XO (XI (XO (XI XH)))))) :: []))))))

(** val rT : rtables **)

let rT =
  { rt_arms = reversal_arms; rt_fix = reversal_fixups; rt_desc =
    reversal_description; rt_amt = rev_amount_arms; rt_std =
    rev_standard_codes; rt_pre = rev_prenote_codes }


(** val negb : bool -> bool **)

let negb = function
| true -> false
| false -> true

type nat =
| O
| S of nat

(** val length : 'a1 list -> nat **)

let rec length = function
| [] -> O
| _ :: l' -> S (length l')

(** val app : 'a1 list -> 'a1 list -> 'a1 list **)

let rec app l m =
  match l with
  | [] -> m
  | a :: l1 -> a :: (app l1 m)

type comparison =
| Eq
| Lt
| Gt

(** val add : nat -> nat -> nat **)

let rec add n0 m =
  match n0 with
  | O -> m
  | S p -> S (add p m)

(** val mul : nat -> nat -> nat **)

let rec mul n0 m =
  match n0 with
  | O -> O
  | S p -> add m (mul p m)

(** val eqb : bool -> bool -> bool **)

let eqb b1 b2 =
  if b1 then b2 else if b2 then false else true

module Nat =
 struct
  (** val eqb : nat -> nat -> bool **)

  let rec eqb n0 m =
    match n0 with
    | O -> (match m with
            | O -> true
            | S _ -> false)
    | S n' -> (match m with
               | O -> false
               | S m' -> eqb n' m')
 end

(** val nth_error : 'a1 list -> nat -> 'a1 option **)

let rec nth_error l = function
| O -> (match l with
        | [] -> None
        | x :: _ -> Some x)
| S n1 -> (match l with
           | [] -> None
           | _ :: l0 -> nth_error l0 n1)

(** val last : 'a1 list -> 'a1 -> 'a1 **)

let rec last l d =
  match l with
  | [] -> d
  | a :: l0 -> (match l0 with
                | [] -> a
                | _ :: _ -> last l0 d)

(** val rev : 'a1 list -> 'a1 list **)

let rec rev = function
| [] -> []
| x :: l' -> app (rev l') (x :: [])

(** val map : ('a1 -> 'a2) -> 'a1 list -> 'a2 list **)

let rec map f = function
| [] -> []
| a :: t -> (f a) :: (map f t)

(** val flat_map : ('a1 -> 'a2 list) -> 'a1 list -> 'a2 list **)

let rec flat_map f = function
| [] -> []
| x :: t -> app (f x) (flat_map f t)

(** val existsb : ('a1 -> bool) -> 'a1 list -> bool **)

let rec existsb f = function
| [] -> false
| a :: l0 -> (||) (f a) (existsb f l0)

(** val forallb : ('a1 -> bool) -> 'a1 list -> bool **)

let rec forallb f = function
| [] -> true
| a :: l0 -> (&&) (f a) (forallb f l0)

(** val filter : ('a1 -> bool) -> 'a1 list -> 'a1 list **)

let rec filter f = function
| [] -> []
| x :: l0 -> if f x then x :: (filter f l0) else filter f l0

(** val seq : nat -> nat -> nat list **)

let rec seq start = function
| O -> []
| S len0 -> start :: (seq (S start) len0)

(** val repeat : 'a1 -> nat -> 'a1 list **)

let rec repeat x = function
| O -> []
| S k -> x :: (repeat x k)

type positive =
| XI of positive
| XO of positive
| XH

type n =
| N0
| Npos of positive

module Pos =
 struct
  (** val succ : positive -> positive **)

  let rec succ = function
  | XI p -> XO (succ p)
  | XO p -> XI p
  | XH -> XO XH

  (** val add : positive -> positive -> positive **)

  let rec add x y =
    match x with
    | XI p ->
      (match y with
       | XI q -> XO (add_carry p q)
       | XO q -> XI (add p q)
       | XH -> XO (succ p))
    | XO p ->
      (match y with
       | XI q -> XI (add p q)
       | XO q -> XO (add p q)
       | XH -> XI p)
    | XH -> (match y with
             | XI q -> XO (succ q)
             | XO q -> XI q
             | XH -> XO XH)

  (** val add_carry : positive -> positive -> positive **)

  and add_carry x y =
    match x with
    | XI p ->
      (match y with
       | XI q -> XI (add_carry p q)
       | XO q -> XO (add_carry p q)
       | XH -> XI (succ p))
    | XO p ->
      (match y with
       | XI q -> XO (add_carry p q)
       | XO q -> XI (add p q)
       | XH -> XO (succ p))
    | XH ->
      (match y with
       | XI q -> XI (succ q)
       | XO q -> XO (succ q)
       | XH -> XI XH)

  (** val compare_cont : comparison -> positive -> positive -> comparison **)

  let rec compare_cont r x y =
    match x with
    | XI p ->
      (match y with
       | XI q -> compare_cont r p q
       | XO q -> compare_cont Gt p q
       | XH -> Gt)
    | XO p ->
      (match y with
       | XI q -> compare_cont Lt p q
       | XO q -> compare_cont r p q
       | XH -> Gt)
    | XH -> (match y with
             | XH -> r
             | _ -> Lt)

  (** val compare : positive -> positive -> comparison **)

  let compare =
    compare_cont Eq

  (** val eqb : positive -> positive -> bool **)

  let rec eqb p q =
    match p with
    | XI p0 -> (match q with
                | XI q0 -> eqb p0 q0
                | _ -> false)
    | XO p0 -> (match q with
                | XO q0 -> eqb p0 q0
                | _ -> false)
    | XH -> (match q with
             | XH -> true
             | _ -> false)
 end

module N =
 struct
  (** val add : n -> n -> n **)

  let add n0 m =
    match n0 with
    | N0 -> m
    | Npos p -> (match m with
                 | N0 -> n0
                 | Npos q -> Npos (Pos.add p q))

  (** val compare : n -> n -> comparison **)

  let compare n0 m =
    match n0 with
    | N0 -> (match m with
             | N0 -> Eq
             | Npos _ -> Lt)
    | Npos n' -> (match m with
                  | N0 -> Gt
                  | Npos m' -> Pos.compare n' m')

  (** val eqb : n -> n -> bool **)

  let eqb n0 m =
    match n0 with
    | N0 -> (match m with
             | N0 -> true
             | Npos _ -> false)
    | Npos p -> (match m with
                 | N0 -> false
                 | Npos q -> Pos.eqb p q)

  (** val leb : n -> n -> bool **)

  let leb x y =
    match compare x y with
    | Gt -> false
    | _ -> true
 end

type ascii =
| Ascii of bool * bool * bool * bool * bool * bool * bool * bool

(** val eqb0 : ascii -> ascii -> bool **)

let eqb0 a b =
  let Ascii (a0, a1, a2, a3, a4, a5, a6, a7) = a in
  let Ascii (b0, b1, b2, b3, b4, b5, b6, b7) = b in
  if if if if if if if eqb a0 b0 then eqb a1 b1 else false
                 then eqb a2 b2
                 else false
              then eqb a3 b3
              else false
           then eqb a4 b4
           else false
        then eqb a5 b5
        else false
     then eqb a6 b6
     else false
  then eqb a7 b7
  else false

type string =
| EmptyString
| String of ascii * string

(** val eqb1 : string -> string -> bool **)

let rec eqb1 s1 s2 =
  match s1 with
  | EmptyString ->
    (match s2 with
     | EmptyString -> true
     | String (_, _) -> false)
  | String (c1, s1') ->
    (match s2 with
     | EmptyString -> false
     | String (c2, s2') -> if eqb0 c1 c2 then eqb1 s1' s2' else false)

type bytes = n list

(** val bytes_eqb : bytes -> bytes -> bool **)

let rec bytes_eqb a b =
  match a with
  | [] -> (match b with
           | [] -> true
           | _ :: _ -> false)
  | x :: a' ->
    (match b with
     | [] -> false
     | y :: b' -> (&&) (N.eqb x y) (bytes_eqb a' b'))

type node =
| File of bytes
| Dir of bytes * node list

type path = bytes list

(** val walk_node : bool -> path -> node -> path list **)

let rec walk_node sub prefix = function
| File name -> (app prefix (name :: [])) :: []
| Dir (name, children) ->
  if sub
  then let rec go = function
       | [] -> []
       | c :: t -> app (walk_node sub (app prefix (name :: [])) c) (go t)
       in go children
  else []

(** val walk : bool -> path -> node list -> path list **)

let walk sub prefix items =
  flat_map (walk_node sub prefix) items

(** val walk_node_unfixed : bool -> path -> node -> path list * bool **)

let rec walk_node_unfixed sub prefix = function
| File name -> (((app prefix (name :: [])) :: []), false)
| Dir (name, children) ->
  if sub
  then ((let rec go = function
         | [] -> []
         | c :: t ->
           let (ps, stop) = walk_node_unfixed sub (app prefix (name :: [])) c
           in
           if stop then ps else app ps (go t)
         in go children), true)
  else ([], false)

(** val walk_unfixed : bool -> path -> node list -> path list **)

let rec walk_unfixed sub prefix = function
| [] -> []
| c :: t ->
  let (ps, stop) = walk_node_unfixed sub prefix c in
  if stop then ps else app ps (walk_unfixed sub prefix t)

type acceptance =
| Accept
| AsJson
| Skip

(** val dot : n **)

let dot =
  Npos (XO (XI (XI (XI (XO XH)))))

(** val slash : n **)

let slash =
  Npos (XI (XI (XI (XI (XO XH)))))

(** val base : bytes -> bytes **)

let rec base l = match l with
| [] -> []
| _ :: t -> if existsb (N.eqb slash) l then base t else l

(** val ext : bytes -> bytes **)

let rec ext l = match l with
| [] -> []
| c :: t ->
  if existsb (N.eqb dot) t then ext t else if N.eqb c dot then l else []

(** val lower_byte : n -> n **)

let lower_byte c =
  if (&&) (N.leb (Npos (XI (XO (XO (XO (XO (XO XH))))))) c)
       (N.leb c (Npos (XO (XI (XO (XI (XI (XO XH))))))))
  then N.add c (Npos (XO (XO (XO (XO (XO XH))))))
  else c

(** val lower : bytes -> bytes **)

let lower l =
  map lower_byte l

(** val lookup :
    bytes -> (bytes * acceptance) list -> acceptance -> acceptance **)

let rec lookup k t dflt =
  match t with
  | [] -> dflt
  | p :: rest ->
    let (k', v) = p in if bytes_eqb k k' then v else lookup k rest dflt

(** val accept_with :
    (bytes * acceptance) list -> acceptance -> bytes -> acceptance **)

let accept_with t dflt p =
  lookup (lower (ext (base p))) t dflt

(** val spec_table : (bytes * acceptance) list **)

let spec_table =
  ([], Accept) :: ((((Npos (XO (XI (XI (XI (XO XH)))))) :: ((Npos (XI (XO (XO
    (XO (XO (XI XH))))))) :: ((Npos (XI (XI (XO (XO (XO (XI
    XH))))))) :: ((Npos (XO (XO (XO (XI (XO (XI XH))))))) :: [])))),
    Accept) :: ((((Npos (XO (XI (XI (XI (XO XH)))))) :: ((Npos (XO (XO (XI
    (XO (XI (XI XH))))))) :: ((Npos (XO (XO (XO (XI (XI (XI
    XH))))))) :: ((Npos (XO (XO (XI (XO (XI (XI XH))))))) :: [])))),
    Accept) :: ((((Npos (XO (XI (XI (XI (XO XH)))))) :: ((Npos (XO (XI (XO
    (XI (XO (XI XH))))))) :: ((Npos (XI (XI (XO (XO (XI (XI
    XH))))))) :: ((Npos (XI (XI (XI (XI (XO (XI XH))))))) :: ((Npos (XO (XI
    (XI (XI (XO (XI XH))))))) :: []))))), AsJson) :: [])))

(** val spec_accept : bytes -> acceptance **)

let spec_accept p =
  accept_with spec_table Skip p

type outcome =
| PSkip
| PErr
| POk of n

type wst =
| WIdle
| WGot of n
| WParsing of n
| WHolding of n
| WExitOk
| WExitErr

type mst =
| MRun
| MAdding of n
| MExitOk
| MExitErr

type st = { queue : n list; walker_done : bool; ws : wst list; mg : mst;
            merged : n list; paths_done : bool; parse_done : bool }

type label =
| LHand of nat
| LStart of nat
| LParse of nat
| LDeliver of nat
| LAdd
| LWalkerDone
| LWalkerCancel
| LPathsCancel
| LWorkerExit of nat
| LWorkerCancel of nat
| LParseCancel
| LMergerExit

(** val set_nth : nat -> 'a1 -> 'a1 list -> 'a1 list **)

let rec set_nth k x = function
| [] -> []
| y :: t -> (match k with
             | O -> x :: t
             | S k' -> y :: (set_nth k' x t))

(** val w_exited : wst -> bool **)

let w_exited = function
| WExitOk -> true
| WExitErr -> true
| _ -> false

(** val w_err : wst -> bool **)

let w_err = function
| WExitErr -> true
| _ -> false

(** val m_err : mst -> bool **)

let m_err = function
| MExitErr -> true
| _ -> false

(** val m_exited : mst -> bool **)

let m_exited = function
| MRun -> false
| MAdding _ -> false
| _ -> true

(** val gcancel : st -> bool **)

let gcancel s =
  (||) (existsb w_err s.ws) (m_err s.mg)

(** val set_w : nat -> wst -> st -> st **)

let set_w i w s =
  { queue = s.queue; walker_done = s.walker_done; ws = (set_nth i w s.ws);
    mg = s.mg; merged = s.merged; paths_done = s.paths_done; parse_done =
    s.parse_done }

(** val after_parse : (n -> outcome) -> n -> wst **)

let after_parse parse p =
  match parse p with
  | PSkip -> WIdle
  | PErr -> WExitErr
  | POk f -> WHolding f

(** val fire :
    bool -> (n -> outcome) -> (n -> bool) -> label -> st -> st option **)

let fire sel parse add_ok l s =
  match l with
  | LHand i ->
    (match s.queue with
     | [] -> None
     | p :: q ->
       (match nth_error s.ws i with
        | Some w ->
          (match w with
           | WIdle ->
             if s.walker_done
             then None
             else Some { queue = q; walker_done = false; ws =
                    (set_nth i (WGot p) s.ws); mg = s.mg; merged = s.merged;
                    paths_done = s.paths_done; parse_done = s.parse_done }
           | _ -> None)
        | None -> None))
  | LStart i ->
    (match nth_error s.ws i with
     | Some w ->
       (match w with
        | WGot p -> Some (set_w i (WParsing p) s)
        | _ -> None)
     | None -> None)
  | LParse i ->
    (match nth_error s.ws i with
     | Some w ->
       (match w with
        | WParsing p -> Some (set_w i (after_parse parse p) s)
        | _ -> None)
     | None -> None)
  | LDeliver i ->
    (match nth_error s.ws i with
     | Some w ->
       (match w with
        | WHolding f ->
          (match s.mg with
           | MRun ->
             Some { queue = s.queue; walker_done = s.walker_done; ws =
               (set_nth i WIdle s.ws); mg = (MAdding f); merged = s.merged;
               paths_done = s.paths_done; parse_done = s.parse_done }
           | _ -> None)
        | _ -> None)
     | None -> None)
  | LAdd ->
    (match s.mg with
     | MAdding f ->
       if add_ok f
       then Some { queue = s.queue; walker_done = s.walker_done; ws = s.ws;
              mg = MRun; merged = (f :: s.merged); paths_done = s.paths_done;
              parse_done = s.parse_done }
       else Some { queue = s.queue; walker_done = s.walker_done; ws = s.ws;
              mg = MExitErr; merged = s.merged; paths_done = s.paths_done;
              parse_done = s.parse_done }
     | _ -> None)
  | LWalkerDone ->
    (match s.queue with
     | [] ->
       if s.walker_done
       then None
       else Some { queue = []; walker_done = true; ws = s.ws; mg = s.mg;
              merged = s.merged; paths_done = s.paths_done; parse_done =
              s.parse_done }
     | _ :: _ -> None)
  | LWalkerCancel ->
    (match s.queue with
     | [] -> None
     | _ :: _ ->
       if (&&) ((&&) sel (negb s.walker_done)) (gcancel s)
       then Some { queue = s.queue; walker_done = true; ws = s.ws; mg = s.mg;
              merged = s.merged; paths_done = s.paths_done; parse_done =
              s.parse_done }
       else None)
  | LPathsCancel ->
    if (&&) s.walker_done (negb s.paths_done)
    then Some { queue = s.queue; walker_done = s.walker_done; ws = s.ws; mg =
           s.mg; merged = s.merged; paths_done = true; parse_done =
           s.parse_done }
    else None
  | LWorkerExit i ->
    (match nth_error s.ws i with
     | Some w ->
       (match w with
        | WIdle -> if s.paths_done then Some (set_w i WExitOk s) else None
        | _ -> None)
     | None -> None)
  | LWorkerCancel i ->
    (match nth_error s.ws i with
     | Some w ->
       (match w with
        | WHolding _ ->
          if (&&) sel (gcancel s) then Some (set_w i WExitOk s) else None
        | _ -> None)
     | None -> None)
  | LParseCancel ->
    if (&&) (forallb w_exited s.ws) (negb s.parse_done)
    then Some { queue = s.queue; walker_done = s.walker_done; ws = s.ws; mg =
           s.mg; merged = s.merged; paths_done = s.paths_done; parse_done =
           true }
    else None
  | LMergerExit ->
    (match s.mg with
     | MRun ->
       if s.parse_done
       then Some { queue = s.queue; walker_done = s.walker_done; ws = s.ws;
              mg = MExitOk; merged = s.merged; paths_done = s.paths_done;
              parse_done = s.parse_done }
       else None
     | _ -> None)

(** val run :
    bool -> (n -> outcome) -> (n -> bool) -> label list -> st -> st option **)

let rec run sel parse add_ok sched s =
  match sched with
  | [] -> Some s
  | l :: rest ->
    (match fire sel parse add_ok l s with
     | Some s' -> run sel parse add_ok rest s'
     | None -> None)

(** val terminal : st -> bool **)

let terminal s =
  (&&)
    ((&&) ((&&) ((&&) s.walker_done s.paths_done) (forallb w_exited s.ws))
      s.parse_done) (m_exited s.mg)

type event =
| EStart of n
| EDone of n

(** val obs : label -> st -> event option **)

let obs l s =
  match l with
  | LStart i ->
    (match nth_error s.ws i with
     | Some w -> (match w with
                  | WGot p -> Some (EStart p)
                  | _ -> None)
     | None -> None)
  | LParse i ->
    (match nth_error s.ws i with
     | Some w -> (match w with
                  | WParsing p -> Some (EDone p)
                  | _ -> None)
     | None -> None)
  | _ -> None

(** val trace_of :
    bool -> (n -> outcome) -> (n -> bool) -> label list -> st -> event list **)

let rec trace_of sel parse add_ok sched s =
  match sched with
  | [] -> []
  | l :: rest ->
    (match fire sel parse add_ok l s with
     | Some s' ->
       (match obs l s with
        | Some e -> e :: (trace_of sel parse add_ok rest s')
        | None -> trace_of sel parse add_ok rest s')
     | None -> [])

(** val init : nat -> n list -> st **)

let init n0 paths =
  { queue = paths; walker_done = false; ws = (repeat WIdle n0); mg = MRun;
    merged = []; paths_done = false; parse_done = false }

type result =
| RErr
| ROk of n list

(** val result_of : st -> result **)

let result_of s =
  if gcancel s then RErr else ROk s.merged

(** val wweight : wst -> nat **)

let wweight = function
| WIdle -> S O
| WGot _ -> S (S (S (S (S (S O)))))
| WParsing _ -> S (S (S (S (S O))))
| WHolding _ -> S (S (S (S O)))
| _ -> O

(** val mweight : mst -> nat **)

let mweight = function
| MRun -> S O
| MAdding _ -> S (S (S O))
| _ -> O

(** val wsum : wst list -> nat **)

let rec wsum = function
| [] -> O
| w :: t -> add (wweight w) (wsum t)

(** val b2n : bool -> nat **)

let b2n = function
| true -> O
| false -> S O

(** val measure : st -> nat **)

let measure s =
  add
    (add
      (add
        (add
          (add (mul (S (S (S (S (S (S O)))))) (length s.queue)) (wsum s.ws))
          (mweight s.mg)) (b2n s.walker_done)) (b2n s.paths_done))
    (b2n s.parse_done)

(** val per_worker : nat -> (nat -> label) -> label list **)

let per_worker n0 f =
  map f (seq O n0)

(** val find_w : (wst -> bool) -> wst list -> nat -> nat option **)

let rec find_w f l i =
  match l with
  | [] -> None
  | w :: t -> if f w then Some i else find_w f t (S i)

(** val is_idle : wst -> bool **)

let is_idle = function
| WIdle -> true
| _ -> false

(** val is_got : n -> wst -> bool **)

let is_got p = function
| WGot q -> N.eqb p q
| _ -> false

(** val is_parsing : n -> wst -> bool **)

let is_parsing p = function
| WParsing q -> N.eqb p q
| _ -> false

(** val assoc : (n * outcome) list -> n -> outcome **)

let rec assoc tbl p =
  match tbl with
  | [] -> PSkip
  | p0 :: t -> let (q, o) = p0 in if N.eqb p q then o else assoc t p

(** val event_eqb : event -> event -> bool **)

let event_eqb a b =
  match a with
  | EStart p -> (match b with
                 | EStart q -> N.eqb p q
                 | EDone _ -> false)
  | EDone p -> (match b with
                | EStart _ -> false
                | EDone q -> N.eqb p q)

(** val trace_eqb : event list -> event list -> bool **)

let rec trace_eqb a b =
  match a with
  | [] -> (match b with
           | [] -> true
           | _ :: _ -> false)
  | x :: a' ->
    (match b with
     | [] -> false
     | y :: b' -> (&&) (event_eqb x y) (trace_eqb a' b'))

(** val count_N : n -> n list -> nat **)

let rec count_N x = function
| [] -> O
| y :: t -> add (if N.eqb x y then S O else O) (count_N x t)

(** val same_multiset : n list -> n list -> bool **)

let same_multiset a b =
  forallb (fun x -> Nat.eqb (count_N x a) (count_N x b)) (app a b)

(** val first_enabled :
    bool -> (n -> outcome) -> (n -> bool) -> label list -> st -> (label * st)
    option **)

let rec first_enabled sel parse add_ok ls s =
  match ls with
  | [] -> None
  | l :: rest ->
    (match fire sel parse add_ok l s with
     | Some s' -> Some (l, s')
     | None -> first_enabled sel parse add_ok rest s)

(** val safe_labels : nat -> label list **)

let safe_labels n0 =
  app (LAdd :: [])
    (app (per_worker n0 (fun x -> LDeliver x))
      (app (LWalkerDone :: (LPathsCancel :: []))
        (app (per_worker n0 (fun x -> LWorkerExit x))
          (app (LParseCancel :: (LMergerExit :: []))
            (per_worker n0 (fun x -> LWorkerCancel x))))))

(** val saturate :
    bool -> (n -> outcome) -> (n -> bool) -> nat -> st -> label list -> label
    list * st **)

let rec saturate sel parse add_ok fuel s acc =
  match fuel with
  | O -> (acc, s)
  | S k ->
    (match first_enabled sel parse add_ok (safe_labels (length s.ws)) s with
     | Some p -> let (l, s') = p in saturate sel parse add_ok k s' (l :: acc)
     | None -> (acc, s))

(** val start_path :
    bool -> (n -> outcome) -> (n -> bool) -> nat -> n -> st -> label list ->
    (label list * st) option **)

let rec start_path sel parse add_ok fuel p s acc =
  match find_w (is_got p) s.ws O with
  | Some i ->
    (match fire sel parse add_ok (LStart i) s with
     | Some s' -> Some (((LStart i) :: acc), s')
     | None -> None)
  | None ->
    (match fuel with
     | O -> None
     | S k ->
       (match find_w is_idle s.ws O with
        | Some i ->
          (match fire sel parse add_ok (LHand i) s with
           | Some s' -> start_path sel parse add_ok k p s' ((LHand i) :: acc)
           | None -> None)
        | None -> None))

(** val build :
    bool -> (n -> outcome) -> (n -> bool) -> event list -> st -> label list
    -> (label list * st) option **)

let rec build sel parse add_ok trace s acc =
  match trace with
  | [] ->
    let (acc1, s1) = saturate sel parse add_ok (measure s) s acc in
    (match fire sel parse add_ok LWalkerCancel s1 with
     | Some s2 ->
       Some
         (saturate sel parse add_ok (measure s2) s2 (LWalkerCancel :: acc1))
     | None -> Some (acc1, s1))
  | e :: rest ->
    (match e with
     | EStart p ->
       let (acc1, s1) = saturate sel parse add_ok (measure s) s acc in
       (match start_path sel parse add_ok (S (length s1.queue)) p s1 acc1 with
        | Some p0 ->
          let (acc2, s2) = p0 in build sel parse add_ok rest s2 acc2
        | None -> None)
     | EDone p ->
       (match find_w (is_parsing p) s.ws O with
        | Some i ->
          (match fire sel parse add_ok (LParse i) s with
           | Some s' -> build sel parse add_ok rest s' ((LParse i) :: acc)
           | None -> None)
        | None -> None))

(** val result_matches : result -> n list option -> bool **)

let result_matches r observed =
  match r with
  | RErr -> (match observed with
             | Some _ -> false
             | None -> true)
  | ROk m ->
    (match observed with
     | Some ids -> same_multiset m ids
     | None -> false)

(** val accept :
    bool -> (n -> outcome) -> (n -> bool) -> nat -> n list -> event list -> n
    list option -> bool **)

let accept sel parse add_ok n0 paths trace observed =
  match build sel parse add_ok trace (init n0 paths) [] with
  | Some p ->
    let (racc, _) = p in
    let sched = rev racc in
    (match run sel parse add_ok sched (init n0 paths) with
     | Some s ->
       (&&)
         ((&&) (terminal s)
           (trace_eqb (trace_of sel parse add_ok sched (init n0 paths)) trace))
         (result_matches (result_of s) observed)
     | None -> false)
  | None -> false

(** val accept_trace :
    bool -> nat -> (n * outcome) list -> n list -> event list -> n list
    option -> bool **)

let accept_trace sel n0 tbl paths trace observed =
  accept sel (assoc tbl) (fun _ -> true) n0 paths trace observed

type send_site = { s_func : string; s_chan : string; s_guarded : bool;
                   s_done : string }

(** val has_chan : string -> send_site list -> bool **)

let has_chan c l =
  existsb (fun s -> eqb1 s.s_chan c) l

(** val shape_sel : send_site list -> bool -> bool **)

let shape_sel l group_ctx =
  (&&)
    ((&&) ((&&) group_ctx (forallb (fun s -> s.s_guarded) l))
      (has_chan (String ((Ascii (false, false, true, false, false, true,
        true, false)), (String ((Ascii (true, false, false, true, false,
        true, true, false)), (String ((Ascii (true, true, false, false, true,
        true, true, false)), (String ((Ascii (true, true, false, false,
        false, true, true, false)), (String ((Ascii (true, true, true, true,
        false, true, true, false)), (String ((Ascii (false, true, true,
        false, true, true, true, false)), (String ((Ascii (true, false, true,
        false, false, true, true, false)), (String ((Ascii (false, true,
        false, false, true, true, true, false)), (String ((Ascii (true,
        false, true, false, false, true, true, false)), (String ((Ascii
        (false, false, true, false, false, true, true, false)), (String
        ((Ascii (false, false, false, false, true, false, true, false)),
        (String ((Ascii (true, false, false, false, false, true, true,
        false)), (String ((Ascii (false, false, true, false, true, true,
        true, false)), (String ((Ascii (false, false, false, true, false,
        true, true, false)), (String ((Ascii (true, true, false, false, true,
        true, true, false)), EmptyString)))))))))))))))))))))))))))))) l))
    (has_chan (String ((Ascii (true, false, true, true, false, true, true,
      false)), (String ((Ascii (true, false, true, false, false, true, true,
      false)), (String ((Ascii (false, true, false, false, true, true, true,
      false)), (String ((Ascii (true, true, true, false, false, true, true,
      false)), (String ((Ascii (true, false, false, false, false, true, true,
      false)), (String ((Ascii (false, true, false, false, false, true, true,
      false)), (String ((Ascii (false, false, true, true, false, true, true,
      false)), (String ((Ascii (true, false, true, false, false, true, true,
      false)), (String ((Ascii (false, true, true, false, false, false, true,
      false)), (String ((Ascii (true, false, false, true, false, true, true,
      false)), (String ((Ascii (false, false, true, true, false, true, true,
      false)), (String ((Ascii (true, false, true, false, false, true, true,
      false)), (String ((Ascii (true, true, false, false, true, true, true,
      false)), EmptyString)))))))))))))))))))))))))) l)

(** val loop_complete : string list -> bool **)

let loop_complete = function
| [] -> true
| _ :: _ -> false

(** val acceptor_table : (bytes * acceptance) list **)

let acceptor_table =
  ([], Accept) :: ((((Npos (XO (XI (XI (XI (XO XH)))))) :: ((Npos (XI (XO (XO
    (XO (XO (XI XH))))))) :: ((Npos (XI (XI (XO (XO (XO (XI
    XH))))))) :: ((Npos (XO (XO (XO (XI (XO (XI XH))))))) :: [])))),
    Accept) :: ((((Npos (XO (XI (XI (XI (XO XH)))))) :: ((Npos (XO (XO (XI
    (XO (XI (XI XH))))))) :: ((Npos (XO (XO (XO (XI (XI (XI
    XH))))))) :: ((Npos (XO (XO (XI (XO (XI (XI XH))))))) :: [])))),
    Accept) :: ((((Npos (XO (XI (XI (XI (XO XH)))))) :: ((Npos (XO (XI (XO
    (XI (XO (XI XH))))))) :: ((Npos (XI (XI (XO (XO (XI (XI
    XH))))))) :: ((Npos (XI (XI (XI (XI (XO (XI XH))))))) :: ((Npos (XO (XI
    (XI (XI (XO (XI XH))))))) :: []))))), AsJson) :: [])))

(** val acceptor_default : acceptance **)

let acceptor_default =
  Skip

(** val mergedir_sends : send_site list **)

let mergedir_sends =
  { s_func = (String ((Ascii (true, true, true, false, true, true, true,
    false)), (String ((Ascii (true, false, false, false, false, true, true,
    false)), (String ((Ascii (false, false, true, true, false, true, true,
    false)), (String ((Ascii (true, true, false, true, false, true, true,
    false)), (String ((Ascii (false, false, true, false, false, false, true,
    false)), (String ((Ascii (true, false, false, true, false, true, true,
    false)), (String ((Ascii (false, true, false, false, true, true, true,
    false)), EmptyString)))))))))))))); s_chan = (String ((Ascii (false,
    false, true, false, false, true, true, false)), (String ((Ascii (true,
    false, false, true, false, true, true, false)), (String ((Ascii (true,
    true, false, false, true, true, true, false)), (String ((Ascii (true,
    true, false, false, false, true, true, false)), (String ((Ascii (true,
    true, true, true, false, true, true, false)), (String ((Ascii (false,
    true, true, false, true, true, true, false)), (String ((Ascii (true,
    false, true, false, false, true, true, false)), (String ((Ascii (false,
    true, false, false, true, true, true, false)), (String ((Ascii (true,
    false, true, false, false, true, true, false)), (String ((Ascii (false,
    false, true, false, false, true, true, false)), (String ((Ascii (false,
    false, false, false, true, false, true, false)), (String ((Ascii (true,
    false, false, false, false, true, true, false)), (String ((Ascii (false,
    false, true, false, true, true, true, false)), (String ((Ascii (false,
    false, false, true, false, true, true, false)), (String ((Ascii (true,
    true, false, false, true, true, true, false)),
    EmptyString)))))))))))))))))))))))))))))); s_guarded = true; s_done =
    (String ((Ascii (true, true, false, false, false, true, true, false)),
    (String ((Ascii (false, false, true, false, true, true, true, false)),
    (String ((Ascii (false, false, false, true, true, true, true, false)),
    EmptyString)))))) } :: ({ s_func = (String ((Ascii (true, false, false,
    false, true, true, true, false)), (String ((Ascii (true, false, true,
    false, true, true, true, false)), (String ((Ascii (true, false, true,
    false, false, true, true, false)), (String ((Ascii (true, false, true,
    false, true, true, true, false)), (String ((Ascii (true, false, true,
    false, false, true, true, false)), (String ((Ascii (false, true, true,
    false, false, false, true, false)), (String ((Ascii (true, false, false,
    true, false, true, true, false)), (String ((Ascii (false, false, true,
    true, false, true, true, false)), (String ((Ascii (true, false, true,
    false, false, true, true, false)), (String ((Ascii (false, true, true,
    false, false, false, true, false)), (String ((Ascii (true, true, true,
    true, false, true, true, false)), (String ((Ascii (false, true, false,
    false, true, true, true, false)), (String ((Ascii (true, false, true,
    true, false, false, true, false)), (String ((Ascii (true, false, true,
    false, false, true, true, false)), (String ((Ascii (false, true, false,
    false, true, true, true, false)), (String ((Ascii (true, true, true,
    false, false, true, true, false)), (String ((Ascii (true, false, false,
    true, false, true, true, false)), (String ((Ascii (false, true, true,
    true, false, true, true, false)), (String ((Ascii (true, true, true,
    false, false, true, true, false)),
    EmptyString)))))))))))))))))))))))))))))))))))))); s_chan = (String
    ((Ascii (true, false, true, true, false, true, true, false)), (String
    ((Ascii (true, false, true, false, false, true, true, false)), (String
    ((Ascii (false, true, false, false, true, true, true, false)), (String
    ((Ascii (true, true, true, false, false, true, true, false)), (String
    ((Ascii (true, false, false, false, false, true, true, false)), (String
    ((Ascii (false, true, false, false, false, true, true, false)), (String
    ((Ascii (false, false, true, true, false, true, true, false)), (String
    ((Ascii (true, false, true, false, false, true, true, false)), (String
    ((Ascii (false, true, true, false, false, false, true, false)), (String
    ((Ascii (true, false, false, true, false, true, true, false)), (String
    ((Ascii (false, false, true, true, false, true, true, false)), (String
    ((Ascii (true, false, true, false, false, true, true, false)), (String
    ((Ascii (true, true, false, false, true, true, true, false)),
    EmptyString)))))))))))))))))))))))))); s_guarded = true; s_done = (String
    ((Ascii (true, true, true, false, false, true, true, false)), (String
    ((Ascii (false, true, false, false, true, true, true, false)), (String
    ((Ascii (true, true, true, true, false, true, true, false)), (String
    ((Ascii (true, false, true, false, true, true, true, false)), (String
    ((Ascii (false, false, false, false, true, true, true, false)), (String
    ((Ascii (true, true, false, false, false, false, true, false)), (String
    ((Ascii (false, false, true, false, true, true, true, false)), (String
    ((Ascii (false, false, false, true, true, true, true, false)),
    EmptyString)))))))))))))))) } :: [])

(** val mergedir_group_ctx : bool **)

let mergedir_group_ctx =
  true

(** val walkdir_early_returns : string list **)

let walkdir_early_returns =
  []

(** val mergedir_sel : bool **)

let mergedir_sel =
  shape_sel mergedir_sends mergedir_group_ctx

(** val default_accept : bytes -> acceptance **)

let default_accept p =
  accept_with acceptor_table acceptor_default p

(** val walk_as_coded : bool -> path -> node list -> path list **)

let walk_as_coded sub prefix items =
  if loop_complete walkdir_early_returns
  then walk sub prefix items
  else walk_unfixed sub prefix items

(** val accepted_as_coded : bool -> node list -> path list **)

let accepted_as_coded sub items =
  filter (fun p ->
    match default_accept (last p []) with
    | Skip -> false
    | _ -> true) (walk_as_coded sub [] items)
